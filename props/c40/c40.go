// Package c40: provider selection for pairing is proportional to stake x geolocation score.
//
// The probability "over varying epoch hashes" is decided as an exact counting statement: a derived overlay
// (tools/overlaygen_c40.py) routes the pseudo-random source of scores.PickProviders to RngHook below, so the
// harness answers every rng.Int63n(n) call and feeds EVERY value 0..n-1 of every slot state to the real
// CalcSlots/GroupSlots/Subtract/CalcPairingScore/PickProviders code. Part Q cross-checks the real
// CalculatePairingChance / ProviderPairingChance query (first slot) on the real keepers.
package c40

import (
	"encoding/binary"
	"encoding/json"
	"fmt"
	"math/big"
	"os"
	"os/exec"
	"path/filepath"
	"runtime"
	"runtime/debug"
	"sort"
	"strings"
	"sync"
	"time"

	"cosmossdk.io/math"
	sdk "github.com/cosmos/cosmos-sdk/types"
	"github.com/lavanet/lava/v5/testutil/common"
	"github.com/lavanet/lava/v5/utils/sigs"
	epochstoragetypes "github.com/lavanet/lava/v5/x/epochstorage/types"
	pairingscores "github.com/lavanet/lava/v5/x/pairing/keeper/scores"
	pairingtypes "github.com/lavanet/lava/v5/x/pairing/types"
	planstypes "github.com/lavanet/lava/v5/x/plans/types"

	"verifmc/engine/chain"
	"verifmc/engine/ev"
	"verifmc/engine/reg"
)

// RngHook answers rng.Int63n(n) inside scores.PickProviders (pulled by the overlay through go:linkname).
// hashData carries the worker id in its first 8 bytes.
var RngHook func(hashData []byte, n int64) int64

const (
	geoUSC = int32(planstypes.Geolocation_USC) // 1
	geoEU  = int32(planstypes.Geolocation_EU)  // 2
	geoFar = int32(planstypes.Geolocation_AU)  // 64: no latency entry towards USC or EU
)

var (
	stakes     = []int64{1, 2, 3}
	provGeos   = []int32{geoUSC, geoEU, geoUSC | geoEU, geoFar}
	policyGeos = []int32{geoUSC, geoEU, geoUSC | geoEU}
)

type ptype struct {
	Stake int64
	Geo   int32
}

func geoName(g int32) string {
	switch g {
	case geoUSC:
		return "USC"
	case geoEU:
		return "EU"
	case geoUSC | geoEU:
		return "USC|EU"
	case geoFar:
		return "AU(far)"
	}
	return fmt.Sprint(g)
}

func (p ptype) String() string { return fmt.Sprintf("%d@%s", p.Stake, geoName(p.Geo)) }

func cfgString(c []ptype) string {
	s := make([]string, len(c))
	for i, p := range c {
		s[i] = p.String()
	}
	return "[" + strings.Join(s, " ") + "]"
}

// ---- reference model, written from the property text and the published latency data -------------------------
// geolocation score of a provider for a slot that requires the single geolocation req: 10000/latency, latency = 1
// when the provider serves req, the USC<->EU latency (170) when it serves the neighbour, and the maximum (10000)
// when it serves neither. score = stake * geoScore.
func refGeoScore(req, provGeo int32) *big.Rat {
	if provGeo&req != 0 {
		return big.NewRat(10000, 1)
	}
	if (req == geoUSC && provGeo&geoEU != 0) || (req == geoEU && provGeo&geoUSC != 0) {
		return big.NewRat(10000, 170)
	}
	return big.NewRat(1, 1)
}

func refScore(req int32, p ptype) *big.Rat {
	return new(big.Rat).Mul(big.NewRat(p.Stake, 1), refGeoScore(req, p.Geo))
}

// ---- harness-owned random source ----------------------------------------------------------------------------
type worker struct {
	id    int
	hash  []byte
	queue []int64 // answers for the next Int63n calls (0 beyond the end)
	pos   int
	ns    []int64 // arguments seen
	bad   string
}

var workers []*worker

func hook(hashData []byte, n int64) int64 {
	w := workers[binary.LittleEndian.Uint64(hashData[:8])]
	v := int64(0)
	if w.pos < len(w.queue) {
		v = w.queue[w.pos]
	}
	w.pos++
	w.ns = append(w.ns, n)
	if v >= n {
		w.bad = fmt.Sprintf("queued answer %d not below Int63n argument %d", v, n)
		v = 0
	}
	return v
}

func (w *worker) arm(q ...int64) {
	w.queue = append(w.queue[:0], q...)
	w.pos = 0
	w.ns = w.ns[:0]
}

// ---- one (configuration, policy geolocation, slot count) -----------------------------------------------------
type item struct {
	cfg    []ptype
	policy int32
}

type viol struct {
	Key, What string
	Replay    interface{}
}

type result struct {
	Draws, States, Nontrivial, Skipped int64
	vectors                            map[string]bool
	Vectors                            []string
	MaxDev                             float64
	MinCount                           int64
	Viols                              []viol
	Sample                             interface{}
}

func entriesOf(cfg []ptype) []epochstoragetypes.StakeEntry {
	es := make([]epochstoragetypes.StakeEntry, len(cfg))
	for i, p := range cfg {
		es[i] = epochstoragetypes.StakeEntry{
			Address:       fmt.Sprintf("p%d", i),
			Chain:         "c40",
			Geolocation:   p.Geo,
			Stake:         sdk.NewCoin("ulava", math.NewInt(p.Stake)),
			DelegateTotal: sdk.NewCoin("ulava", math.ZeroInt()),
		}
	}
	return es
}

func newScores(es []epochstoragetypes.StakeEntry) []*pairingscores.PairingScore {
	out := make([]*pairingscores.PairingScore, len(es))
	for i := range es {
		ps := pairingscores.NewPairingScore(&es[i], pairingtypes.DefaultReputationPairingScore)
		ps.SlotFiltering = map[int]struct{}{} // as filters.SetupScores does without mixed filters
		out[i] = ps
	}
	return out
}

// fullRun mirrors the group loop of keeper.getPairingForClient on fresh scores with the given answers.
func (w *worker) fullRun(es []epochstoragetypes.StakeEntry, groups []*pairingscores.PairingSlotGroup, answers []int64) (picks []string, ns []int64, err error) {
	scores := newScores(es)
	w.arm(answers...)
	prev := pairingscores.NewPairingSlotGroup(pairingscores.NewPairingSlot(-1))
	for _, g := range groups {
		diff := g.Subtract(prev)
		if err := pairingscores.CalcPairingScore(scores, pairingscores.GetStrategy(), diff); err != nil {
			return nil, nil, err
		}
		for _, p := range pairingscores.PickProviders(sdk.Context{}, scores, g.Indexes(), w.hash) {
			picks = append(picks, p.Address)
		}
		prev = g
	}
	return picks, append([]int64{}, w.ns...), nil
}

func idxOf(addr string) int { return int(addr[1] - '0') }

func (w *worker) explore(it item, m int, res *result) {
	cfg := it.cfg
	n := len(cfg)
	es := entriesOf(cfg)
	policy := planstypes.Policy{GeolocationProfile: it.policy, MaxProvidersToPair: uint64(m)}
	slots := pairingscores.CalcSlots(&policy)
	groups := pairingscores.GroupSlots(slots)
	// flat order of the picks: group by group, slot indexes inside a group
	type pos struct{ g, j, slot int }
	var flat []pos
	for gi, g := range groups {
		for j, s := range g.Indexes() {
			flat = append(flat, pos{gi, j, s})
		}
	}
	where := func(d int, mask int) string {
		return fmt.Sprintf("providers %s policy geolocation %s, %d slots, pick #%d (slot index %d), already picked mask %b", cfgString(cfg), geoName(it.policy), m, d, flat[d].slot, mask)
	}
	if len(flat) != m {
		res.Viols = append(res.Viols, viol{"harness/slot-count", fmt.Sprintf("CalcSlots/GroupSlots give %d slots for MaxProvidersToPair=%d", len(flat), m), nil})
		return
	}
	// required geolocation of each slot: read from the real slot, must be a single geolocation of the policy
	reqGeo := make([]int32, m)
	for d, p := range flat {
		gr, ok := slots[p.slot].Reqs["geo-req"].(pairingscores.GeoReq)
		if !ok || gr.Geo&it.policy == 0 || gr.Geo&(gr.Geo-1) != 0 {
			res.Viols = append(res.Viols, viol{"slot-geo-not-in-policy", fmt.Sprintf("slot %d requires geolocation %v, policy %d", p.slot, slots[p.slot].Reqs["geo-req"], it.policy), nil})
			return
		}
		reqGeo[d] = gr.Geo
	}

	type state struct {
		mask   int
		prefix []int64 // representative answers reaching it
		picks  []string
	}
	cur := []state{{}}
	for d := 0; d < m; d++ {
		next := map[int]state{}
		var order []int
		for _, st := range cur {
			// --- prepare: fresh scores, replay earlier groups with the representative answers, score this group
			g := groups[flat[d].g]
			scores := newScores(es)
			prev := pairingscores.NewPairingSlotGroup(pairingscores.NewPairingSlot(-1))
			used := 0
			failed := false
			for gi := 0; gi < flat[d].g; gi++ {
				pg := groups[gi]
				if err := pairingscores.CalcPairingScore(scores, pairingscores.GetStrategy(), pg.Subtract(prev)); err != nil {
					res.Viols = append(res.Viols, viol{"score-error", where(d, st.mask) + ": " + err.Error(), nil})
					failed = true
					break
				}
				w.arm(st.prefix[used : used+len(pg.Indexes())]...)
				pairingscores.PickProviders(sdk.Context{}, scores, pg.Indexes(), w.hash)
				used += len(pg.Indexes())
				prev = pg
			}
			if failed {
				continue
			}
			if err := pairingscores.CalcPairingScore(scores, pairingscores.GetStrategy(), g.Subtract(prev)); err != nil {
				res.Viols = append(res.Viols, viol{"score-error", where(d, st.mask) + ": " + err.Error(), nil})
				continue
			}
			base := make([]bool, n)
			for i, s := range scores {
				base[i] = s.SkipForSelection
			}
			inGroup := st.prefix[used:] // answers of the earlier slots of this group
			j := flat[d].j
			answers := make([]int64, j+1)
			copy(answers, inGroup)
			draw := func(v int64) (pick int, nAsked int64, problem string) {
				for i, s := range scores {
					s.SkipForSelection = base[i]
				}
				answers[j] = v
				w.arm(answers...)
				ret := pairingscores.PickProviders(sdk.Context{}, scores, g.Indexes(), w.hash)
				if w.bad != "" {
					p := w.bad
					w.bad = ""
					return -1, 0, "harness: " + p
				}
				if len(w.ns) <= j {
					return -1, 0, fmt.Sprintf("only %d random draws were made", len(w.ns))
				}
				if len(ret) <= j {
					return -1, w.ns[j], "nobody"
				}
				for k := 0; k < j; k++ {
					if ret[k].Address != st.picks[used+k] {
						return -1, w.ns[j], fmt.Sprintf("harness: replayed prefix picked %s instead of %s", ret[k].Address, st.picks[used+k])
					}
				}
				return idxOf(ret[j].Address), w.ns[j], ""
			}
			_, N, problem := draw(0)
			if problem != "" && problem != "nobody" {
				res.Viols = append(res.Viols, viol{"harness/draw", where(d, st.mask) + ": " + problem, nil})
				continue
			}
			counts := make([]int64, n)
			firstAnswer := make([]int64, n)
			for i := range firstAnswer {
				firstAnswer[i] = -1
			}
			nobody := int64(0)
			firstNobody := int64(-1)
			for v := int64(0); v < N; v++ {
				p, n2, problem := draw(v)
				if problem == "nobody" {
					if nobody == 0 {
						firstNobody = v
					}
					nobody++
					continue
				}
				if problem != "" || n2 != N {
					res.Viols = append(res.Viols, viol{"harness/draw", fmt.Sprintf("%s: answer %d: %s (Int63n argument %d, before %d)", where(d, st.mask), v, problem, n2, N), nil})
					break
				}
				counts[p]++
				if firstAnswer[p] < 0 {
					firstAnswer[p] = v
				}
			}
			res.Draws += N
			res.States++

			// --- fast path == fresh path (three answers per state)
			for _, v := range []int64{0, N / 2, N - 1} {
				if v < 0 || v >= N {
					continue
				}
				pf, _, prob := draw(v)
				if prob != "" {
					continue // reported by the oracle below (a value that picks nobody) or above (harness)
				}
				full := append(append([]int64{}, st.prefix...), v)
				picks, _, err := w.fullRun(es, groups, full)
				ps := -1
				if err == nil && len(picks) > d {
					ps = idxOf(picks[d])
				}
				if pf != ps {
					res.Viols = append(res.Viols, viol{"harness/fast-path", fmt.Sprintf("%s: answer %d picks provider %d with restored flags but %d on fresh scores", where(d, st.mask), v, pf, ps), nil})
				}
			}

			// --- oracle
			rep := map[string]interface{}{"providers": cfgString(cfg), "policy_geolocation": it.policy, "max_providers_to_pair": m,
				"pick_number": d, "slot_index": flat[d].slot, "slot_required_geolocation": reqGeo[d], "already_picked": st.picks,
				"answers_reaching_state": st.prefix, "int63n_argument": N, "counts": counts}
			if nobody > 0 {
				rep["first_answer_picking_nobody"] = firstNobody
				res.Viols = append(res.Viols, viol{"draw-picks-nobody", fmt.Sprintf("%s: %d of the %d possible random values fill the slot with no provider (first: %d)", where(d, st.mask), nobody, N, firstNobody), rep})
			}
			var vec []string
			distinct := map[string]bool{}
			unpicked := 0
			expected := make([]string, n)
			for i := 0; i < n; i++ {
				if st.mask&(1<<i) != 0 {
					if counts[i] != 0 {
						res.Viols = append(res.Viols, viol{"picked-again", fmt.Sprintf("%s: provider %d (already picked) is picked again by %d values", where(d, st.mask), i, counts[i]), rep})
					}
					continue
				}
				unpicked++
				sc := refScore(reqGeo[d], cfg[i])
				expected[i] = sc.FloatString(3)
				vec = append(vec, sc.RatString())
				distinct[sc.RatString()] = true
				dev := new(big.Rat).Sub(big.NewRat(counts[i], 1), sc)
				dev.Abs(dev)
				if f, _ := dev.Float64(); f > res.MaxDev {
					res.MaxDev = f
				}
				if counts[i] < res.MinCount || res.MinCount == 0 {
					res.MinCount = counts[i]
				}
				if counts[i] == 0 {
					rep["expected"] = expected
					res.Viols = append(res.Viols, viol{"zero-chance", fmt.Sprintf("%s: provider %d (%s, score %s) is picked by none of the %d possible random values", where(d, st.mask), i, cfg[i], sc.FloatString(3), N), rep})
				} else if dev.Cmp(big.NewRat(1, 1)) > 0 {
					rep["expected"] = expected
					res.Viols = append(res.Viols, viol{"count-not-proportional", fmt.Sprintf("%s: provider %d (%s) is picked by %d of %d values, its stake x geo score is %s", where(d, st.mask), i, cfg[i], counts[i], N, sc.FloatString(3)), rep})
				}
			}
			if unpicked >= 2 && len(distinct) >= 2 {
				res.Nontrivial++
				sort.Strings(vec)
				res.vectors[fmt.Sprintf("%d|%s", reqGeo[d], strings.Join(vec, ","))] = true
			}
			if res.Sample == nil && d >= 1 && len(distinct) >= 2 {
				rep["expected"] = expected
				res.Sample = rep
			}
			// --- successors: one representative per set of picked providers
			for i := 0; i < n; i++ {
				if counts[i] == 0 || st.mask&(1<<i) != 0 {
					continue
				}
				nm := st.mask | 1<<i
				if _, ok := next[nm]; !ok {
					next[nm] = state{mask: nm, prefix: append(append([]int64{}, st.prefix...), firstAnswer[i]), picks: append(append([]string{}, st.picks...), fmt.Sprintf("p%d", i))}
					order = append(order, nm)
				}
			}
		}
		cur = cur[:0]
		sort.Ints(order)
		for _, k := range order {
			cur = append(cur, next[k])
		}
	}
}

// ---- configurations ---------------------------------------------------------------------------------------------
func allTypes() []ptype { return typesOf(stakes) }

func typesOf(st []int64) []ptype {
	var t []ptype
	for _, s := range st {
		for _, g := range provGeos {
			t = append(t, ptype{s, g})
		}
	}
	return t
}

func tuples(n int) [][]ptype {
	ts := allTypes()
	out := [][]ptype{{}}
	for k := 0; k < n; k++ {
		var nx [][]ptype
		for _, c := range out {
			for _, t := range ts {
				nx = append(nx, append(append([]ptype{}, c...), t))
			}
		}
		out = nx
	}
	return out
}

// multisets in the order the keeper presents them (stake descending); order 1: also reversed, order 2: every
// second one reversed instead (both walk directions are exercised at half the cost)
func multisets(n int, order int, st []int64) [][]ptype {
	ts := typesOf(st)
	sort.SliceStable(ts, func(i, j int) bool { return ts[i].Stake > ts[j].Stake })
	var out [][]ptype
	k := 0
	var rec func(start int, cur []ptype)
	rec = func(start int, cur []ptype) {
		if len(cur) == n {
			c := append([]ptype{}, cur...)
			r := make([]ptype, n)
			for i := range c {
				r[n-1-i] = c[i]
			}
			k++
			switch {
			case order == 1 && cfgString(r) != cfgString(c):
				out = append(out, c, r)
			case order == 2 && k%2 == 0:
				out = append(out, r)
			default:
				out = append(out, c)
			}
			return
		}
		for i := start; i < len(ts); i++ {
			rec(i, append(cur, ts[i]))
		}
	}
	rec(0, nil)
	return out
}

// flatGeos: the required geolocation of every pick (group by group) for a policy and slot count, from the real code
func flatGeos(pg int32, m int) string {
	policy := planstypes.Policy{GeolocationProfile: pg, MaxProvidersToPair: uint64(m)}
	slots := pairingscores.CalcSlots(&policy)
	var sb strings.Builder
	for _, g := range pairingscores.GroupSlots(slots) {
		for _, s := range g.Indexes() {
			gr, _ := slots[s].Reqs["geo-req"].(pairingscores.GeoReq)
			fmt.Fprintf(&sb, "%d,", gr.Geo)
		}
	}
	return sb.String()
}

// slotCounts: the MaxProvidersToPair values explored for n providers: 1..min(3,n-1) except those whose pick sequence
// is a proper prefix of the sequence of a larger explored value (their slot states are states of the larger one)
func slotCounts(pg int32, n int) []int {
	maxM := n - 1 // the keeper returns all providers without drawing when slots >= providers
	if maxM > 3 {
		maxM = 3
	}
	var out []int
	for m := 1; m <= maxM; m++ {
		covered := false
		for m2 := m + 1; m2 <= maxM; m2++ {
			if strings.HasPrefix(flatGeos(pg, m2), flatGeos(pg, m)) {
				covered = true
			}
		}
		if !covered {
			out = append(out, m)
		}
	}
	return out
}

// ---- part Q: the pairing-chance query on the real keepers ------------------------------------------------------
const qChain = "cspec"
const qUnit = 100000

func partQ(run *ev.Run, maxN int) (cases, compared int64) {
	w := chain.NewWorld()
	w.StdFixture(chain.StdOpts{Specs: []string{qChain}, Providers: 0, Consumers: 0})
	accs := make([]sigs.Account, 4)
	for i := range accs {
		accs[i], _ = w.AddAccount(common.PROVIDER, i, 10*qUnit)
	}
	w.MarkFixture()
	tol := big.NewRat(1, 100000000000000000) // 1e-17: the answer is an 18-decimals number
	for n := 2; n <= maxN; n++ {
		for _, cfg := range multisets(n, 0, stakes) {
			w.Reset()
			ok := true
			for i, p := range cfg {
				if r := w.Stake(accs[i], qChain, p.Stake*qUnit, p.Geo, nil, 100); !r.OK() {
					run.Violate(ev.Violation{Key: "harness/stake", What: fmt.Sprintf("cannot stake %s: %v %s", p, r.Err, r.Panic)})
					ok = false
				}
			}
			if !ok {
				continue
			}
			if p := w.AdvanceToNextEpoch(chain.BlockDt); p != "" {
				run.Violate(ev.Violation{Key: "harness/epoch", What: p})
				continue
			}
			cases++
			for _, pg := range policyGeos {
				first := pg & -pg // the first slot requires the lowest geolocation of the policy
				total := new(big.Rat)
				for _, p := range cfg {
					total.Add(total, refScore(first, p))
				}
				for i, p := range cfg {
					want := new(big.Rat).Quo(refScore(first, p), total)
					policy := planstypes.Policy{GeolocationProfile: pg, MaxProvidersToPair: 1}
					got, err := w.Keepers.Pairing.CalculatePairingChance(w.Ctx, accs[i].Addr.String(), qChain, &policy, "c40cluster")
					check := func(api string, got math.LegacyDec, err error) {
						compared++
						rep := map[string]interface{}{"providers": cfgString(cfg), "stake_unit": qUnit, "policy_geolocation": pg, "provider": i, "api": api}
						if err != nil {
							run.Violate(ev.Violation{Key: "chance-query-error/" + api, What: fmt.Sprintf("providers %s policy geolocation %d: %s for provider %d fails: %v", cfgString(cfg), pg, api, i, err), Replay: rep})
							return
						}
						g, _ := new(big.Rat).SetString(got.String())
						diff := new(big.Rat).Sub(g, want)
						if diff.Abs(diff).Cmp(tol) > 0 {
							run.Violate(ev.Violation{Key: "chance-query-mismatch/" + api, What: fmt.Sprintf("providers %s policy geolocation %d: %s of provider %d (%s) is %s, score share is %s", cfgString(cfg), pg, api, i, p, got, want.FloatString(18)), Replay: rep})
						}
					}
					check("CalculatePairingChance", got, err)
					if pg&(pg-1) == 0 { // the gRPC query takes a single geolocation
						resp, err := w.Keepers.Pairing.ProviderPairingChance(w.GoCtx, &pairingtypes.QueryProviderPairingChanceRequest{Provider: accs[i].Addr.String(), ChainID: qChain, Geolocation: pg, Cluster: "c40cluster"})
						ch := math.LegacyZeroDec()
						if err == nil {
							ch = resp.Chance
						}
						check("ProviderPairingChance", ch, err)
					}
				}
			}
		}
	}
	return cases, compared
}

// ---- the check ----------------------------------------------------------------------------------------------------
func overlayActive() bool {
	w := workers[0]
	es := entriesOf([]ptype{{1, geoUSC}, {2, geoUSC}})
	policy := planstypes.Policy{GeolocationProfile: geoUSC, MaxProvidersToPair: 1}
	groups := pairingscores.GroupSlots(pairingscores.CalcSlots(&policy))
	_, ns, err := w.fullRun(es, groups, []int64{0})
	return err == nil && len(ns) == 1
}

func setup() {
	h := make([]byte, 8)
	workers = []*worker{{id: 0, hash: h}}
	RngHook = hook
	if !overlayActive() {
		fmt.Fprintln(os.Stderr, "HARNESS ERROR: C40 needs the derived overlay that routes PickProviders' random source to the harness: "+
			"python3 tools/overlaygen_c40.py && go build -tags verif -overlay .cache/overlay/c40/overlay.json ...")
		os.Exit(3)
	}
}

// the work list of part P (identical in the parent and in every shard process)
func workList(thorough bool) (items []item, bound string) {
	add := func(cfgs [][]ptype) {
		for _, c := range cfgs {
			for _, pg := range policyGeos {
				items = append(items, item{c, pg})
			}
		}
	}
	add(tuples(2))
	switch {
	case os.Getenv("C40_ONLY2") != "":
		bound = "2 providers: every ordered list"
	case thorough:
		add(multisets(3, 1, stakes))
		add(multisets(4, 2, []int64{1, 2}))
		bound = "2 providers: every ordered list; 3 providers: every multiset in stake-descending order (the keeper's order) and reversed; " +
			"4 providers: every multiset with stake in {1,2}, alternately stake-descending and reversed"
	default:
		add(multisets(3, 2, []int64{1, 2}))
		add(multisets(4, 2, []int64{1}))
		bound = "2 providers: every ordered list; 3 providers: every multiset with stake in {1,2}, alternately in stake-descending order (the keeper's order) and reversed; " +
			"4 providers: every multiset with stake 1, alternately in both orders"
	}
	// fewer providers first (a deadline on a busy machine then cuts the 4-provider lists only), heavy items first
	// among equals (round-robin over the shards then balances them)
	weight := func(it item) int64 {
		var t int64
		for _, p := range it.cfg {
			t += p.Stake
		}
		n := int64(len(it.cfg))
		return t * n * n
	}
	sort.SliceStable(items, func(i, j int) bool {
		if len(items[i].cfg) != len(items[j].cfg) {
			return len(items[i].cfg) < len(items[j].cfg)
		}
		return weight(items[i]) > weight(items[j])
	})
	return items, bound
}

// shardMain runs in a child process (GOMAXPROCS=1; the code under test allocates on every call and Go's collector
// scales badly over many Ps on a busy machine): items k = i mod n, result as JSON into the given file.
func shardMain(spec string) {
	var i, n int
	var deadline int64
	var out string
	if _, err := fmt.Sscanf(spec, "%d/%d/%d/%s", &i, &n, &deadline, &out); err != nil {
		fmt.Fprintln(os.Stderr, "c40 shard: bad spec", spec, err)
		os.Exit(3)
	}
	setup()
	debug.SetGCPercent(400)
	items, _ := workList(ev.Tier() == "thorough")
	res := &result{vectors: map[string]bool{}}
	for k := i; k < len(items); k += n {
		if time.Now().Unix() >= deadline {
			res.Skipped++
			continue
		}
		for _, m := range slotCounts(items[k].policy, len(items[k].cfg)) {
			workers[0].explore(items[k], m, res)
		}
	}
	for k := range res.vectors {
		res.Vectors = append(res.Vectors, k)
	}
	b, _ := json.Marshal(res)
	if err := os.WriteFile(out, b, 0o644); err != nil {
		fmt.Fprintln(os.Stderr, "c40 shard:", err)
		os.Exit(3)
	}
}

func runCheck(run *ev.Run) {
	setup()
	thorough := ev.Tier() == "thorough"
	t0 := time.Now()
	deadline := t0.Add(80 * time.Second)
	if thorough {
		deadline = t0.Add(14 * time.Minute)
	}
	items, bound := workList(thorough)

	// part P: every random value of every slot state, in shard processes
	nsh := runtime.NumCPU()
	if nsh > 16 {
		nsh = 16
	}
	exe, _ := os.Executable()
	dir, err := os.MkdirTemp("", "c40shards")
	if err != nil {
		panic(err)
	}
	defer os.RemoveAll(dir)
	results := make([]*result, nsh)
	shardErr := make([]string, nsh)
	var wg sync.WaitGroup
	for i := 0; i < nsh; i++ {
		wg.Add(1)
		go func(i int) {
			defer wg.Done()
			out := filepath.Join(dir, fmt.Sprintf("shard%d.json", i))
			cmd := exec.Command(exe, os.Args[1:]...)
			cmd.Env = append(os.Environ(), fmt.Sprintf("C40_SHARD=%d/%d/%d/%s", i, nsh, deadline.Unix(), out), "GOMAXPROCS=1")
			cmd.Stdout = os.Stderr
			cmd.Stderr = os.Stderr
			if err := cmd.Run(); err != nil {
				shardErr[i] = err.Error()
				return
			}
			b, err := os.ReadFile(out)
			if err != nil {
				shardErr[i] = err.Error()
				return
			}
			r := &result{}
			if err := json.Unmarshal(b, r); err != nil {
				shardErr[i] = err.Error()
				return
			}
			results[i] = r
		}(i)
	}

	// part Q meanwhile in this process
	qMax := 3
	if thorough {
		qMax = 4
	}
	var qCases, qCompared int64
	if os.Getenv("C40_SKIP_Q") == "" {
		qCases, qCompared = partQ(run, qMax)
	}
	tQ := time.Now()
	wg.Wait()
	tP := time.Now()

	var draws, states, nontrivial, skipped int64
	vectors := map[string]bool{}
	maxDev := 0.0
	minCount := int64(0)
	exhaustive := true
	for i, r := range results {
		if r == nil {
			run.Set(fmt.Sprintf("shard%d.error", i), shardErr[i])
			fmt.Fprintf(os.Stderr, "HARNESS ERROR: C40 shard %d failed: %s\n", i, shardErr[i])
			exhaustive = false
			continue
		}
		draws += r.Draws
		states += r.States
		nontrivial += r.Nontrivial
		skipped += r.Skipped
		for _, k := range r.Vectors {
			vectors[k] = true
		}
		if r.MaxDev > maxDev {
			maxDev = r.MaxDev
		}
		if r.MinCount > 0 && (minCount == 0 || r.MinCount < minCount) {
			minCount = r.MinCount
		}
		for _, v := range r.Viols {
			run.Violate(ev.Violation{Key: v.Key, What: v.What, Replay: v.Replay})
		}
		if r.Sample != nil {
			run.Sample(r.Sample)
		}
	}
	run.Set("evaluations", draws+qCompared)
	run.Set("random_values_fed_to_PickProviders", draws)
	run.Set("slot_states", states)
	run.Set("slot_states_with_different_scores", nontrivial)
	run.Set("distinct_nontrivial", int64(len(vectors)))
	run.Set("configurations_x_policies", int64(len(items)))
	run.Set("configurations_x_policies_skipped_by_deadline", skipped)
	run.Set("max_abs_deviation_count_vs_score", maxDev)
	run.Set("min_count_of_an_unpicked_provider", minCount)
	run.Set("query_configurations", qCases)
	run.Set("query_answers_compared", qCompared)
	run.Set("shard_processes", int64(nsh))
	run.Set("part_wall_s", map[string]float64{"Q": tQ.Sub(t0).Seconds(), "P": tP.Sub(t0).Seconds()})
	run.Set("exhaustive", exhaustive && skipped == 0)
	run.Set("rule", "P: a slot state = (provider list, policy geolocation, MaxProvidersToPair, pick number, set of already picked providers); for every state EVERY "+
		"answer 0..n-1 of the rng.Int63n(n) call of that pick is fed to the real PickProviders and the picks are counted; oracle per unpicked provider: "+
		"|count - stake x geoScore| <= 1 and count >= 1, already picked providers get 0, no value leaves the slot empty. "+
		"distinct_nontrivial = distinct (required geolocation, multiset of reference scores of the unpicked providers) with >= 2 different scores that were counted. "+
		"Q: CalculatePairingChance and the ProviderPairingChance query on the real keepers == score share of the first slot (1e-17).")
	run.Set("bound", fmt.Sprintf("P: stake in %v ulava x provider geolocation in {USC, EU, USC|EU, AU(far from both)}; %s; policy geolocation in {USC, EU, USC|EU}; "+
		"MaxProvidersToPair in 1..min(3, providers-1), skipping a value whose pick sequence (required geolocations) is a proper prefix of that of a larger explored value "+
		"(no mixed filters: selected-providers mode and add-ons unset); pick k+1 explored from one representative answer per set of already picked providers. "+
		"Q: every multiset of 2..%d such providers (stake unit %d ulava) staked by transactions, policy geolocation in {USC, EU, USC|EU}", stakes, bound, qMax, qUnit))
	run.Assume("the probability over epoch hashes is read as the exact measure over the values of rng.Int63n(n): math/rand's Int63n is uniform on [0,n) for a uniform source, and seeding from sha256(epoch hash, chain, project, group) is taken as uniform (a derived overlay replaces only the line `rng := rand.New(hashData)` of score.go by a stand-in whose Int63n asks the harness)")
	run.Assume("'within statistical tolerance' is sharpened to: the number of random values that pick a provider differs from its stake x geo score by at most 1 (rounding of the cumulative decimal sums)")
	run.Assume("the geolocation score of the reference is 10000/latency with latency 1 (served), 170 (USC<->EU, the repo's published latency table) and 10000 (no entry)")
	run.Assume("the group loop of getPairingForClient (Subtract -> CalcPairingScore -> PickProviders per slot group on the same score objects) is mirrored by the harness on real scores.* functions; between random values only the SkipForSelection flags are restored, which is compared with a run on fresh scores for 3 values per state")
}

func init() {
	reg.Register(reg.Check{Property: "C40", Level: "exploration", Run: runCheck})
	// shard mode of part P: the parent re-executes its own binary with C40_SHARD set (works in every binary that
	// links this package, no dispatcher support needed); all imported packages are initialised at this point.
	if spec := os.Getenv("C40_SHARD"); spec != "" {
		shardMain(spec)
		os.Exit(0)
	}
}
