// Package c01: chain state transitions and pairing are deterministic — the same scripted histories are executed
// under every controlled map-iteration order (patched runtime, see tools/overlaygen_runtime.py) and must produce
// the same per-block state hashes and the same pairing lists as the baseline order.
package c01

import (
	"encoding/hex"
	"fmt"
	"strings"
	"time"

	sdk "github.com/cosmos/cosmos-sdk/types"
	authtypes "github.com/cosmos/cosmos-sdk/x/auth/types"
	govtypes "github.com/cosmos/cosmos-sdk/x/gov/types"
	"github.com/lavanet/lava/v5/testutil/common"
	"github.com/lavanet/lava/v5/utils/sigs"
	epochstoragetypes "github.com/lavanet/lava/v5/x/epochstorage/types"
	pairingtypes "github.com/lavanet/lava/v5/x/pairing/types"
	planstypes "github.com/lavanet/lava/v5/x/plans/types"
	projectstypes "github.com/lavanet/lava/v5/x/projects/types"
	rewardstypes "github.com/lavanet/lava/v5/x/rewards/types"
	spectypes "github.com/lavanet/lava/v5/x/spec/types"

	"verifmc/engine/chain"
	"verifmc/props/c02"
)

// Obs is the observation sequence of one run.
type Obs struct {
	Items []string
}

func (o *Obs) add(kind, val string) { o.Items = append(o.Items, kind+"="+val) }

func (o *Obs) block(w *chain.World, what string) {
	o.add(fmt.Sprintf("block[%d:%s]", w.Ctx.BlockHeight(), what), hex.EncodeToString(w.StateHash()))
}

func tx(o *Obs, name string, r chain.TxResult) bool {
	if r.Panic != "" {
		o.add("tx:"+name, "panic")
	} else if r.Err != nil {
		o.add("tx:"+name, "err")
	} else {
		o.add("tx:"+name, "ok")
	}
	return r.OK()
}

func next(o *Obs, w *chain.World, dt time.Duration, what string) {
	if p := w.NextBlock(dt); p != "" {
		o.add("blockpanic", firstLine(p))
	}
	o.block(w, what)
}

func nextEpoch(o *Obs, w *chain.World) {
	start := w.EpochStartNow()
	for i := 0; i < 64 && w.EpochStartNow() == start; i++ {
		next(o, w, chain.BlockDt, "b")
	}
}

func firstLine(s string) string {
	if i := strings.IndexByte(s, '\n'); i >= 0 {
		return s[:i]
	}
	return s
}

var (
	collJ  = spectypes.CollectionData{ApiInterface: spectypes.APIInterfaceJsonRPC, Type: "POST", AddOn: ""}
	collJA = spectypes.CollectionData{ApiInterface: spectypes.APIInterfaceJsonRPC, Type: "POST", AddOn: "addon1"}
	collR  = spectypes.CollectionData{ApiInterface: spectypes.APIInterfaceRest, Type: "GET", AddOn: ""}
	collRA = spectypes.CollectionData{ApiInterface: spectypes.APIInterfaceRest, Type: "GET", AddOn: "addon1"}
)

func specTwoInterfaces(index string) spectypes.Spec {
	s := chain.MockSpec(index)
	ext := []*spectypes.Extension{{Name: "ext1", CuMultiplier: 2}, {Name: "ext2", CuMultiplier: 3}}
	s.ApiCollections[0].Extensions = ext
	mk := func(c spectypes.CollectionData, api string) *spectypes.ApiCollection {
		return &spectypes.ApiCollection{Enabled: true, CollectionData: c, Extensions: ext, Apis: []*spectypes.Api{{Name: api, ComputeUnits: 10, Enabled: true}}}
	}
	s.ApiCollections = append(s.ApiCollections, mk(collJA, "jaAPI"), mk(collR, "/r/api"), mk(collRA, "/ra/api"))
	return s
}

func pol(max uint64, geo int32, mode planstypes.SELECTED_PROVIDERS_MODE, list []string, chainID string, reqs ...planstypes.ChainRequirement) *planstypes.Policy {
	p := &planstypes.Policy{TotalCuLimit: 1000000, EpochCuLimit: 100000, MaxProvidersToPair: max, GeolocationProfile: geo, SelectedProvidersMode: mode, SelectedProviders: list}
	if len(reqs) > 0 {
		p.ChainPolicies = []planstypes.ChainPolicy{{ChainId: chainID, Requirements: reqs}}
	}
	return p
}

func req(c spectypes.CollectionData, mixed bool, exts ...string) planstypes.ChainRequirement {
	return planstypes.ChainRequirement{Collection: c, Extensions: exts, Mixed: mixed}
}

func endpoints(geo int32, ifaces []string, addons, exts []string) []epochstoragetypes.Endpoint {
	var out []epochstoragetypes.Endpoint
	for _, g := range planstypes.GetGeolocationsFromUint(geo) {
		out = append(out, epochstoragetypes.Endpoint{IPPORT: "123", Geolocation: int32(g), ApiInterfaces: ifaces, Addons: addons, Extensions: exts})
	}
	return out
}

func setPolicies(o *Obs, w *chain.World, cons sigs.Account, sub, adm *planstypes.Policy) {
	proj, err := w.Keepers.Projects.GetProjectForDeveloper(w.Ctx, cons.Addr.String(), uint64(w.Ctx.BlockHeight()))
	if err != nil {
		o.add("project", "missing")
		return
	}
	if sub != nil {
		tx(o, "subpolicy", w.Tx(func() error {
			msg := projectstypes.NewMsgSetSubscriptionPolicy(cons.Addr.String(), []string{proj.Index}, sub)
			if err := msg.ValidateBasic(); err != nil {
				return err
			}
			_, err := w.Servers.ProjectServer.SetSubscriptionPolicy(w.GoCtx, msg)
			return err
		}))
	}
	if adm != nil {
		tx(o, "admpolicy", w.Tx(func() error {
			msg := projectstypes.NewMsgSetPolicy(cons.Addr.String(), proj.Index, adm)
			if err := msg.ValidateBasic(); err != nil {
				return err
			}
			_, err := w.Servers.ProjectServer.SetPolicy(w.GoCtx, msg)
			return err
		}))
	}
}

func queryPairings(o *Obs, w *chain.World, chainID string, consumers []sigs.Account, provs []sigs.Account) map[string][]string {
	name := map[string]string{}
	for i, p := range provs {
		name[p.Addr.String()] = fmt.Sprintf("p%d", i)
	}
	res := map[string][]string{}
	for ci, c := range consumers {
		pr, err := w.Keepers.Pairing.GetPairing(w.GoCtx, &pairingtypes.QueryGetPairingRequest{ChainID: chainID, Client: c.Addr.String()})
		if err != nil {
			o.add(fmt.Sprintf("pairing[%s,c%d]", chainID, ci), "err")
			continue
		}
		var l []string
		for _, p := range pr.Providers {
			l = append(l, name[p.Address])
			res[c.Addr.String()] = append(res[c.Addr.String()], p.Address)
		}
		o.add(fmt.Sprintf("pairing[%s,c%d]", chainID, ci), strings.Join(l, ","))
		for pi, p := range provs {
			vr, verr := w.Keepers.Pairing.VerifyPairing(w.GoCtx, &pairingtypes.QueryVerifyPairingRequest{ChainID: chainID, Client: c.Addr.String(), Provider: p.Addr.String(), Block: w.EpochStartNow()})
			o.add(fmt.Sprintf("verify[%s,c%d,p%d]", chainID, ci, pi), fmt.Sprint(verr == nil && vr.Valid))
		}
	}
	return res
}

// History1: pairing under merged policies (shared add-on, different API interfaces, mixed and not), payments with
// QoS excellence and unresponsiveness reports, epochs past chain memory, delegations, month boundary with payouts,
// IPRPC funding, governance (plan add/delete, param change, spec with imports).
func History1() *Obs {
	o := &Obs{}
	w := chain.NewWorld()
	w.SetEpochParams(4, 3)
	w.AddValidator(0, 1000000)
	w.AddValidator(1, 2000000)
	const A = "spa"
	const B = "spb"
	tx(o, "specA", w.AddSpecGov(specTwoInterfaces(A)))
	// a base spec and a spec importing it (diamond-free chain of imports)
	base := chain.MockSpec("basespec")
	base.ApiCollections[0].Apis = append(base.ApiCollections[0].Apis, &spectypes.Api{Name: "baseExtra", ComputeUnits: 7, Enabled: true})
	tx(o, "specBase", w.AddSpecGov(base))
	sb := chain.MockSpec(B)
	sb.Imports = []string{"basespec"}
	tx(o, "specB", w.AddSpecGov(sb))
	var provs []sigs.Account
	for i := 0; i < 5; i++ {
		a, _ := w.AddAccount(common.PROVIDER, i, 100000000)
		provs = append(provs, a)
	}
	var cons []sigs.Account
	for i := 0; i < 5; i++ {
		a, _ := w.AddAccount(common.CONSUMER, i, 1000000000)
		cons = append(cons, a)
	}
	deleg, _ := w.AddAccount("delegator", 0, 100000000)
	a := func(i int) string { return provs[i].Addr.String() }
	M, E, AL := planstypes.SELECTED_PROVIDERS_MODE_MIXED, planstypes.SELECTED_PROVIDERS_MODE_EXCLUSIVE, planstypes.SELECTED_PROVIDERS_MODE_ALLOWED
	plans := []*planstypes.Policy{
		pol(3, 3, AL, nil, A, req(collJA, false, "ext1"), req(collRA, false)),
		pol(4, 3, AL, nil, A, req(collJA, true, "ext1", "ext2"), req(collRA, true, "ext2")),
		pol(3, 3, M, []string{a(0), a(1), a(4)}, A),
		// the same add-on / the same extension required as MIXED on both api interfaces, with more eligible providers
		// than slots: each mixed requirement owns pairing slots by its position in the filter list
		pol(3, 3, AL, nil, A, req(collJA, true), req(collRA, true)),
		pol(4, 3, AL, nil, A, req(collJ, true, "ext1"), req(collR, true, "ext1"), req(collRA, true, "ext2")),
	}
	for i, p := range plans {
		plan := common.CreateMockPlan()
		plan.Index = fmt.Sprintf("plan%d", i)
		plan.PlanPolicy = *p
		plan.Price = sdk.NewCoin(w.TokenDenom(), sdk.NewInt(1000000))
		tx(o, "plan", w.AddPlanGov(false, plan))
	}
	J, R := spectypes.APIInterfaceJsonRPC, spectypes.APIInterfaceRest
	stakes := []struct {
		amt    int64
		geo    int32
		ifaces []string
		addons []string
		exts   []string
	}{
		{5000, 1, []string{J, R}, []string{"addon1"}, []string{"ext1", "ext2"}},
		{3000, 2, []string{J, R}, []string{"addon1"}, []string{"ext1"}},
		{1000, 3, []string{J, R}, nil, nil},
		{1000, 1, []string{J, R}, []string{"addon1"}, []string{"ext2"}},
		{7000, 2, []string{J, R}, []string{"addon1"}, []string{"ext1", "ext2"}},
	}
	for i, s := range stakes {
		eps := endpoints(s.geo, s.ifaces, s.addons, s.exts)
		switch i {
		case 1: // add-on only on jsonrpc, rest without the add-on
			eps = append(endpoints(s.geo, []string{J}, []string{"addon1"}, []string{"ext1"}), endpoints(s.geo, []string{R}, nil, nil)...)
		case 3: // add-on only on rest, jsonrpc without the add-on
			eps = append(endpoints(s.geo, []string{R}, []string{"addon1"}, []string{"ext2"}), endpoints(s.geo, []string{J}, nil, []string{"ext1"})...)
		}
		tx(o, "stakeA", w.Stake(provs[i], A, s.amt, s.geo, eps, uint64(10*i)))
		tx(o, "stakeB", w.Stake(provs[i], B, s.amt+500, s.geo, nil, 50))
	}
	next(o, w, chain.BlockDt, "staked")
	for i, c := range cons {
		tx(o, "buy", w.Buy(c, c, fmt.Sprintf("plan%d", i), 2, i == 0, false))
	}
	setPolicies(o, w, cons[0], pol(3, 3, AL, nil, A, req(collRA, false, "ext1")), pol(2, 1, E, []string{a(0), a(1), a(3), a(4)}, A, req(collJA, false)))
	setPolicies(o, w, cons[1], nil, pol(3, 3, M, []string{a(3), a(4)}, A, req(collJ, true, "ext1")))
	setPolicies(o, w, cons[2], pol(5, 3, AL, nil, A, req(collJA, false)), nil)
	// delegation to a provider (delegator rewards at the month boundary)
	tx(o, "delegate", w.Tx(func() error {
		_, err := w.TxDualstakingDelegate(deleg.Addr.String(), a(0), sdk.NewCoin(w.TokenDenom(), sdk.NewInt(4000)))
		return err
	}))
	// IPRPC: eligible subscription + fund
	tx(o, "iprpcdata", w.Tx(func() error {
		_, err := w.TxRewardsSetIprpcDataProposal(authtypes.NewModuleAddress(govtypes.ModuleName).String(), sdk.NewCoin(w.TokenDenom(), sdk.NewInt(100)), []string{cons[0].Addr.String(), cons[2].Addr.String()})
		return err
	}))
	tx(o, "fundiprpc", w.Tx(func() error {
		msg := rewardstypes.NewMsgFundIprpc(cons[1].Addr.String(), A, 2, sdk.NewCoins(sdk.NewCoin(w.TokenDenom(), sdk.NewInt(50000))))
		if err := msg.ValidateBasic(); err != nil {
			return err
		}
		_, err := w.Servers.RewardsServer.FundIprpc(w.GoCtx, msg)
		return err
	}))
	nextEpoch(o, w)
	nextEpoch(o, w)
	session := uint64(1)
	for e := 0; e < 7; e++ {
		pa := queryPairings(o, w, A, cons, provs)
		queryPairings(o, w, B, cons[:2], provs)
		epoch := int64(w.EpochStartNow())
		// every consumer pays its first two paired providers; reports the last paired provider as unresponsive
		for ci, c := range cons {
			list := pa[c.Addr.String()]
			for k := 0; k < 2 && k < len(list); k++ {
				rs := &pairingtypes.RelaySession{Provider: list[k], ContentHash: []byte("apiname"), SessionId: session, SpecId: A, CuSum: uint64(100 * (ci + 1) * (k + 1)),
					Epoch: epoch, RelayNum: 1, LavaChainId: chain.ChainID,
					QosExcellenceReport: &pairingtypes.QualityOfServiceReport{Latency: sdk.NewDecWithPrec(int64(5+e+k), 1), Availability: sdk.NewDecWithPrec(9, 1), Sync: sdk.NewDecWithPrec(int64(1+ci), 1)}}
				if len(list) > 2 {
					rs.UnresponsiveProviders = []*pairingtypes.ReportedProvider{{Address: list[len(list)-1], Disconnections: 3, Errors: 2, TimestampS: w.Ctx.BlockTime().Unix()}}
				}
				session++
				chain.SignRelay(c, rs)
				provider := list[k]
				tx(o, "pay", w.Tx(func() error {
					msg := &pairingtypes.MsgRelayPayment{Creator: provider, Relays: []*pairingtypes.RelaySession{rs}, DescriptionString: "verif"}
					_, err := w.Servers.PairingServer.RelayPayment(w.GoCtx, msg)
					return err
				}))
			}
		}
		if e == 2 {
			tx(o, "param", w.ParamChangeGov(epochstoragetypes.ModuleName, string(epochstoragetypes.KeyEpochsToSave), "\"4\""))
			planNew := common.CreateMockPlan()
			planNew.Index = "plan0"
			planNew.PlanPolicy = *pol(4, 3, AL, nil, A, req(collJA, false))
			planNew.Price = sdk.NewCoin(w.TokenDenom(), sdk.NewInt(2000000))
			tx(o, "planmodify", w.AddPlanGov(false, planNew))
		}
		if e == 4 {
			tx(o, "plandel", w.DelPlanGov("plan2"))
			tx(o, "unstake", w.Tx(func() error {
				_, err := w.TxPairingUnstakeProvider(provs[2].GetVaultAddr(), A)
				return err
			}))
		}
		nextEpoch(o, w)
	}
	// month boundary: subscription expiry/renewal, payouts, IPRPC distribution, pool refill
	next(o, w, 31*24*time.Hour, "month")
	nextEpoch(o, w)
	queryPairings(o, w, A, cons, provs)
	next(o, w, 3*24*time.Hour, "cutracker")
	nextEpoch(o, w)
	tx(o, "claim", w.Tx(func() error {
		_, err := w.TxDualstakingClaimRewards(deleg.Addr.String(), "")
		return err
	}))
	next(o, w, 31*24*time.Hour, "month2")
	nextEpoch(o, w)
	queryPairings(o, w, A, cons, provs)
	return o
}

// History2: the same extension required as MIXED on both api interfaces, providers that serve it on one interface
// only (disjoint populations, equal stakes), more eligible providers than slots: which slot is reserved for which
// interface's requirement is decided by the position of the requirement's sub filter in the mix filter list.
func History2() *Obs {
	o := &Obs{}
	w := chain.NewWorld()
	w.SetEpochParams(4, 3)
	w.AddValidator(0, 1000000)
	const A = "spa"
	tx(o, "specA", w.AddSpecGov(specTwoInterfaces(A)))
	J, R := spectypes.APIInterfaceJsonRPC, spectypes.APIInterfaceRest
	var provs []sigs.Account
	for i := 0; i < 9; i++ {
		a, _ := w.AddAccount(common.PROVIDER, i, 100000000)
		provs = append(provs, a)
		var eps []epochstoragetypes.Endpoint
		switch i % 3 {
		case 0: // extension (and add-on) on jsonrpc only
			eps = append(endpoints(1, []string{J}, []string{"addon1"}, []string{"ext1"}), endpoints(1, []string{R}, nil, nil)...)
		case 1: // on rest only
			eps = append(endpoints(1, []string{R}, []string{"addon1"}, []string{"ext1"}), endpoints(1, []string{J}, nil, nil)...)
		default: // neither
			eps = endpoints(1, []string{J, R}, nil, nil)
		}
		tx(o, "stake", w.Stake(a, A, 5000, 1, eps, 10))
	}
	AL := planstypes.SELECTED_PROVIDERS_MODE_ALLOWED
	plans := []*planstypes.Policy{
		pol(6, 1, AL, nil, A, req(collJ, true, "ext1"), req(collR, true, "ext1")),
		pol(4, 1, AL, nil, A, req(collJ, true, "ext1"), req(collR, true, "ext1")),
		pol(7, 1, AL, nil, A, req(collJA, true, "ext1"), req(collRA, true, "ext1")),
		pol(5, 1, AL, nil, A, req(collRA, true, "ext1"), req(collJA, true, "ext1"), req(collJ, true, "ext2")),
	}
	var cons []sigs.Account
	for i, p := range plans {
		plan := common.CreateMockPlan()
		plan.Index = fmt.Sprintf("mixplan%d", i)
		plan.PlanPolicy = *p
		tx(o, "plan", w.AddPlanGov(false, plan))
		c, _ := w.AddAccount(common.CONSUMER, i, 1000000000)
		cons = append(cons, c)
	}
	next(o, w, chain.BlockDt, "staked")
	for i, c := range cons {
		tx(o, "buy", w.Buy(c, c, fmt.Sprintf("mixplan%d", i), 1, false, false))
	}
	nextEpoch(o, w)
	for e := 0; e < 8; e++ {
		nextEpoch(o, w)
		queryPairings(o, w, A, cons, provs)
	}
	return o
}

// HistoryC02 re-runs a slice of the C02 configuration enumeration and records every pairing list.
func HistoryC02(step, offset int) *Obs {
	o := &Obs{}
	c := c02.NewCfg()
	k := 0
	for mi, ms := range c02.Multisets() {
		if mi%step != offset {
			continue
		}
		for pi := range c.Plans {
			for si := range c.Subs {
				for ai := range c.Admins {
					k++
					c.Evaluate(ms, pi, si, ai, func(r c02.Result) {
						o.add("c02:"+r.Case, strings.Join(r.Pairing, ",")+"|"+r.Err)
					})
				}
			}
		}
	}
	return o
}

// Histories by name.
var Histories = map[string]func() *Obs{
	"H1":    History1,
	"H2":    History2,
	"C02/a": func() *Obs { return HistoryC02(66, 0) },
	"C02/b": func() *Obs { return HistoryC02(66, 33) },
}
