// Package c11: monthly subscription payouts are bounded and proportional — BFS over histories on the real
// subscription / rewards / dualstaking / pairing keepers with an oracle evaluated at every block in which a
// CU-tracker timer fires.
//
// Readings (the weaker one wherever the statement is ambiguous):
//   - "each provider's share": the code keeps tracked CU per (subscription, provider, chain) and pays every such
//     entry separately; the oracle demands ⌊min(credit, 100·ΣCU)·cu_entry/ΣCU⌋ per entry (summed per provider),
//     i.e. the floor is taken per tracked entry, not once per provider.
//   - a provider that is not staked any more at the payout cannot be paid; for it only "received ≤ share" is
//     demanded (its participation fees are still taken, the rest stays in the subscription module).
//   - "paid at most once": no second timer for the same (subscription, subscription block) with tracked CU ever
//     fires, and an injected re-firing of the same timer (same key/data, on a fork) pays nothing to providers
//     when the tracked entries of that month were the newest ones (when a newer month already has its own
//     tracked-CU version the old version is left in place by design; that case is only counted).
//   - ΣCU = 0: the credit is added to the newest subscription version, or, if the subscription does not exist,
//     sent to the validators pool; when the month expiry of that subscription is processed in the very same
//     block either of the two is accepted.
package c11

import (
	"fmt"
	"math/big"
	"sort"
	"strings"
	"time"

	sdk "github.com/cosmos/cosmos-sdk/types"
	distributiontypes "github.com/cosmos/cosmos-sdk/x/distribution/types"
	"github.com/lavanet/lava/v5/testutil/common"
	testkeeper "github.com/lavanet/lava/v5/testutil/keeper"
	"github.com/lavanet/lava/v5/utils/sigs"
	dualstakingtypes "github.com/lavanet/lava/v5/x/dualstaking/types"
	pairingtypes "github.com/lavanet/lava/v5/x/pairing/types"
	rewardstypes "github.com/lavanet/lava/v5/x/rewards/types"
	subscriptiontypes "github.com/lavanet/lava/v5/x/subscription/types"

	"verifmc/engine/bfs"
	"verifmc/engine/chain"
	"verifmc/engine/ev"
	"verifmc/engine/reg"
)

const (
	specA = "mocka"
	specB = "mockb"
	// limitTokenPerCU is the per-CU limit of the property statement ("capped at the per-CU limit").
	limitTokenPerCU = 100
)

type opdef struct {
	name string
	tx   func(s *scen) chain.TxResult
	blk  func(s *scen) blockOut
}

type blockOut struct {
	rejected bool
	panicMsg string
	viol     []ev.Violation
	tags     map[string]bool
}

func (b *blockOut) merge(o blockOut) {
	if o.panicMsg != "" && b.panicMsg == "" {
		b.panicMsg = o.panicMsg
	}
	b.viol = append(b.viol, o.viol...)
	if b.tags == nil {
		b.tags = map[string]bool{}
	}
	for t := range o.tags {
		b.tags[t] = true
	}
}

type scen struct {
	kind  string
	w     *chain.World
	ops   []opdef
	names []string
	cons  []sigs.Account
	provs []sigs.Account
	deleg sigs.Account
	val   sigs.Account
	contr sigs.Account
	start time.Time

	// Go-side model state (saved in Fork, part of Hash)
	seeded bool            // tracked CU was injected through AddTrackedCu in this history
	paid   map[string]bool // consumer|subBlock -> a payout with tracked CU happened
}

func coin(w *chain.World, n int64) sdk.Coin { return sdk.NewCoin(w.TokenDenom(), sdk.NewInt(n)) }

func bigCoin(w *chain.World, dec string) sdk.Coin {
	i, ok := sdk.NewIntFromString(dec)
	if !ok {
		panic("bad int " + dec)
	}
	return sdk.NewCoin(w.TokenDenom(), i)
}

// build constructs a scenario. kind: "zero" (participation fees 0, fresh chain), "default" (default participation
// fees, a spec contributor, two subscribed consumers), "huge" (participation 0, a plan whose monthly credit exceeds
// 100·2^63, tracked CU seeded up to 2^63).
func build(kind string) *scen {
	s := &scen{kind: kind}
	w := chain.NewWorld()
	s.w = w
	w.SetEpochParams(4, 3)
	s.val = w.AddValidator(0, 1000000)
	s.contr, _ = w.AddAccount("contributor", 0, 0)
	sa := chain.MockSpec(specA)
	sb := chain.MockSpec(specB)
	if kind == "default" {
		sb.Contributor = []string{s.contr.Addr.String()}
		pc := sdk.NewDecWithPrec(1, 1)
		sb.ContributorPercentage = &pc
	}
	w.Must("specA", w.AddSpecGov(sa))
	w.Must("specB", w.AddSpecGov(sb))

	planA := common.CreateMockPlan()
	planA.Index = "plana"
	planA.Price = coin(w, 100000)
	planA.AnnualDiscountPercentage = 0
	planA.PlanPolicy.TotalCuLimit = 1000000000
	planA.PlanPolicy.EpochCuLimit = 100000000
	planB := common.CreateMockPlan()
	planB.Index = "planb"
	planB.Price = coin(w, 300001)
	planB.AnnualDiscountPercentage = 0
	planB.PlanPolicy = planA.PlanPolicy
	// plan C: 201 per month — with 2 tracked CU the per-CU price is 100.5, just above the limit
	planC := common.CreateMockPlan()
	planC.Index = "planc"
	planC.Price = coin(w, 201)
	planC.AnnualDiscountPercentage = 0
	planC.PlanPolicy = planA.PlanPolicy
	if kind == "huge" {
		planA.Price = bigCoin(w, "1000000000000000000007") // 10^21+7 > 100·2^63
		planB.Price = bigCoin(w, "3000000000000000000000") // 3·10^21
	}
	w.Must("plans", w.AddPlanGov(false, planA, planB, planC))

	if kind != "default" {
		// participation fees zero: everything a provider is due goes to provider + delegators (+ contributors)
		rp := w.Keepers.Rewards.GetParams(w.Ctx)
		rp.ValidatorsSubscriptionParticipation = sdk.ZeroDec()
		w.Keepers.Rewards.SetParams(w.Ctx, rp)
		dp := w.Keepers.Distribution.GetParams(w.Ctx)
		dp.CommunityTax = sdk.ZeroDec()
		if err := w.Keepers.Distribution.SetParams(w.Ctx, dp); err != nil {
			panic(err)
		}
	}
	// no monthly bonus rewards (they would be added to the same reward records in a month-boundary block)
	for _, pool := range []rewardstypes.Pool{rewardstypes.ProvidersRewardsAllocationPool, rewardstypes.ProviderRewardsDistributionPool} {
		w.Keepers.BankKeeper.SetBalance(w.Ctx, testkeeper.GetModuleAddress(string(pool)), sdk.NewCoins())
	}

	for i := 0; i < 3; i++ {
		p, _ := w.AddAccount(common.PROVIDER, i, 100000000)
		s.provs = append(s.provs, p)
		w.Must("stake", w.Stake(p, specA, 100000, 1, nil, uint64(50*i)))
		if i < 2 {
			w.Must("stake", w.Stake(p, specB, 100000, 1, nil, uint64(50*i)))
		}
	}
	for i := 0; i < 2; i++ {
		c, _ := w.AddAccount(common.CONSUMER, i, 20000000)
		s.cons = append(s.cons, c)
		if kind == "huge" {
			w.Keepers.BankKeeper.SetBalance(w.Ctx, c.Addr, sdk.NewCoins(bigCoin(w, "100000000000000000000000")))
		}
	}
	s.deleg, _ = w.AddAccount("delegator", 0, 1000000)
	w.Must("delegate", w.Tx(func() error {
		msg := &dualstakingtypes.MsgDelegate{Creator: s.deleg.Addr.String(), Validator: sdk.ValAddress(s.val.Addr).String(), Provider: s.provs[0].Addr.String(), ChainID: specA, Amount: coin(w, 50000)}
		if err := msg.ValidateBasic(); err != nil {
			return err
		}
		_, err := w.Servers.DualstakingServer.Delegate(w.GoCtx, msg)
		return err
	}))
	mustBlock := func(p string) {
		if p != "" {
			panic("fixture: " + p)
		}
	}
	mustBlock(w.AdvanceToNextEpoch(chain.BlockDt))
	mustBlock(w.AdvanceToNextEpoch(chain.BlockDt))
	switch kind {
	case "default":
		// two consumers subscribed in the same block: their payout timers fire in the same block
		w.Must("buy", w.Buy(s.cons[0], s.cons[0], "plana", 2, false, false))
		w.Must("buy", w.Buy(s.cons[1], s.cons[1], "plana", 1, false, false))
		mustBlock(w.AdvanceToNextEpoch(chain.BlockDt))
		w.Must("pay", s.pay(0, 0, specA, 300))
	case "huge":
		w.Must("buy", w.Buy(s.cons[0], s.cons[0], "plana", 1, false, false))
		mustBlock(w.AdvanceToNextEpoch(chain.BlockDt))
	}
	s.start = w.Ctx.BlockTime()
	w.MarkFixture()

	tx := func(name string, f func(s *scen) chain.TxResult) { s.ops = append(s.ops, opdef{name: name, tx: f}) }
	blk := func(name string, f func(s *scen) blockOut) { s.ops = append(s.ops, opdef{name: name, blk: f}) }
	switch kind {
	case "zero":
		tx("buy(c0,planA,1m)", func(s *scen) chain.TxResult { return s.w.Buy(s.cons[0], s.cons[0], "plana", 1, false, false) })
		tx("buy(c0,planA,2m)", func(s *scen) chain.TxResult { return s.w.Buy(s.cons[0], s.cons[0], "plana", 2, false, false) })
		tx("buy(c0,planC,1m)", func(s *scen) chain.TxResult { return s.w.Buy(s.cons[0], s.cons[0], "planc", 1, false, false) })
		tx("buy/upgrade(c0,planB,1m)", func(s *scen) chain.TxResult { return s.w.Buy(s.cons[0], s.cons[0], "planb", 1, false, false) })
		tx("pay(p0,c0,A,1)", func(s *scen) chain.TxResult { return s.pay(0, 0, specA, 1) })
		// a relay whose QoS report is the worst possible: the QoS-adjusted CU that is tracked truncates to 0, so the month
		// has a tracker entry but no tracked CU
		tx("pay(p0,c0,A,1,worst-qos)", func(s *scen) chain.TxResult { return s.payQos(0, 0, specA, 1, true) })
		tx("pay(p0,c0,A,300)", func(s *scen) chain.TxResult { return s.pay(0, 0, specA, 300) })
		tx("pay(p1,c0,A,2)", func(s *scen) chain.TxResult { return s.pay(1, 0, specA, 2) })
		tx("pay(p1,c0,B,1000000)", func(s *scen) chain.TxResult { return s.pay(1, 0, specB, 1000000) })
		tx("pay(p2,c0,A,2)", func(s *scen) chain.TxResult { return s.pay(2, 0, specA, 2) })
		tx("SEED(c0,p0,B,3e9)", func(s *scen) chain.TxResult { return s.seed(0, 0, specB, 3000000000) })
		tx("SEED(c0,p2,A,1)", func(s *scen) chain.TxResult { return s.seed(0, 2, specA, 1) })
		tx("unstake(p1,A)", func(s *scen) chain.TxResult { return s.unstake(1, specA) })
		tx("unstake(p1,B)", func(s *scen) chain.TxResult { return s.unstake(1, specB) })
	case "default":
		tx("buy/upgrade(c0,planB,1m)", func(s *scen) chain.TxResult { return s.w.Buy(s.cons[0], s.cons[0], "planb", 1, false, false) })
		tx("pay(p0,c0,A,2)", func(s *scen) chain.TxResult { return s.pay(0, 0, specA, 2) })
		tx("pay(p1,c0,B,1000000)", func(s *scen) chain.TxResult { return s.pay(1, 0, specB, 1000000) })
		tx("pay(p0,c0,B,300)", func(s *scen) chain.TxResult { return s.pay(0, 0, specB, 300) })
		tx("pay(p1,c1,B,1)", func(s *scen) chain.TxResult { return s.pay(1, 1, specB, 1) })
		tx("pay(p2,c1,A,300)", func(s *scen) chain.TxResult { return s.pay(2, 1, specA, 300) })
		tx("SEED(c1,p0,A,3e9)", func(s *scen) chain.TxResult { return s.seed(1, 0, specA, 3000000000) })
		tx("unstake(p2,A)", func(s *scen) chain.TxResult { return s.unstake(2, specA) })
	case "huge":
		tx("buy/upgrade(c0,planB,1m)", func(s *scen) chain.TxResult { return s.w.Buy(s.cons[0], s.cons[0], "planb", 1, false, false) })
		tx("pay(p1,c0,B,1000000)", func(s *scen) chain.TxResult { return s.pay(1, 0, specB, 1000000) })
		tx("SEED(c0,p0,A,1)", func(s *scen) chain.TxResult { return s.seed(0, 0, specA, 1) })
		tx("SEED(c0,p0,B,2)", func(s *scen) chain.TxResult { return s.seed(0, 0, specB, 2) })
		tx("SEED(c0,p1,A,3e9)", func(s *scen) chain.TxResult { return s.seed(0, 1, specA, 3000000000) })
		tx("SEED(c0,p2,A,2^63)", func(s *scen) chain.TxResult { return s.seed(0, 2, specA, 1<<63) })
	}
	blk("+1block", func(s *scen) blockOut { return s.block(chain.BlockDt) })
	blk("next-epoch", func(s *scen) blockOut { return s.nextEpoch() })
	blk("->payout", func(s *scen) blockOut { return s.toPayout() })
	blk("+1day", func(s *scen) blockOut { return s.block(24 * time.Hour) })
	blk("+31days", func(s *scen) blockOut { return s.block(31 * 24 * time.Hour) })
	for _, o := range s.ops {
		s.names = append(s.names, o.name)
	}
	return s
}

// ---------------------------------------------------------------- transactions

func (s *scen) pay(p, c int, spec string, cu uint64) chain.TxResult {
	return s.payQos(p, c, spec, cu, false)
}

func (s *scen) payQos(p, c int, spec string, cu uint64, worstQos bool) chain.TxResult {
	w := s.w
	ci := uint64(0)
	if spec == specB {
		ci = 1
	}
	// session id unique per (block, provider, consumer, chain, cu): repeating the op in the same block is a double spend
	sid := uint64(w.Ctx.BlockHeight())*100000000 + uint64(p)*10000000 + uint64(c)*1000000 + ci*100000 + cu%100000
	rs := &pairingtypes.RelaySession{Provider: s.provs[p].Addr.String(), ContentHash: []byte("apiname"), SessionId: sid, SpecId: spec,
		CuSum: cu, Epoch: int64(w.EpochStartNow()), RelayNum: 1, LavaChainId: chain.ChainID}
	if worstQos {
		rs.SessionId += 50000
		rs.QosReport = &pairingtypes.QualityOfServiceReport{Latency: sdk.ZeroDec(), Availability: sdk.ZeroDec(), Sync: sdk.ZeroDec()}
	}
	chain.SignRelay(s.cons[c], rs)
	return w.Tx(func() error {
		msg := &pairingtypes.MsgRelayPayment{Creator: rs.Provider, Relays: []*pairingtypes.RelaySession{rs}, DescriptionString: "verif"}
		if err := msg.ValidateBasic(); err != nil {
			return err
		}
		_, err := w.Servers.PairingServer.RelayPayment(w.GoCtx, msg)
		return err
	})
}

// seed injects tracked CU for the subscription version in force now through the exported keeper method
// (state injection: no transaction can do this); guarded against wrapping the uint64 counters by the injection itself.
func (s *scen) seed(c, p int, spec string, cu uint64) chain.TxResult {
	w := s.w
	return w.Tx(func() error {
		consumer := s.cons[c].Addr.String()
		sub, found := w.Keepers.Subscription.GetSubscription(w.Ctx, consumer)
		if !found {
			return fmt.Errorf("no subscription")
		}
		_, total := w.Keepers.Subscription.GetSubTrackedCuInfo(w.Ctx, consumer, sub.Block)
		if total+cu < total || total+cu >= 1<<63+1<<62 {
			return fmt.Errorf("harness guard: the injected counters would wrap")
		}
		return w.Keepers.Subscription.AddTrackedCu(w.Ctx, consumer, s.provs[p].Addr.String(), spec, cu, sub.Block)
	})
}

func (s *scen) unstake(p int, spec string) chain.TxResult {
	w := s.w
	return w.Tx(func() error {
		msg := &pairingtypes.MsgUnstakeProvider{Creator: s.provs[p].GetVaultAddr(), Validator: sdk.ValAddress(s.val.Addr).String(), ChainID: spec}
		if err := msg.ValidateBasic(); err != nil {
			return err
		}
		_, err := w.Servers.PairingServer.UnstakeProvider(w.GoCtx, msg)
		return err
	})
}

// ---------------------------------------------------------------- observation helpers

type timer struct {
	consumer string
	height   uint64
	data     []byte
	subBlock uint64
	credit   *big.Int
	ok       bool // data decodes
}

func (s *scen) timers() []timer {
	w := s.w
	gs := w.Keepers.Subscription.ExportCuTrackerTimers(w.Ctx)
	var out []timer
	for _, e := range gs.BlockEntries {
		t := timer{consumer: e.Key, height: e.Value, data: append([]byte{}, e.Data...)}
		var d subscriptiontypes.CuTrackerTimerData
		if err := d.Unmarshal(e.Data); err == nil && !d.Credit.Amount.IsNil() {
			t.ok = true
			t.subBlock = d.Block
			t.credit = d.Credit.Amount.BigInt()
		}
		out = append(out, t)
	}
	return out
}

func tkey(t timer) string { return fmt.Sprintf("%s@%d", t.consumer, t.height) }

type entry struct {
	provider, chain string
	cu              uint64
}

type subView struct {
	found           bool
	block           uint64
	credit          *big.Int
	monthExpiryTime uint64
}

// subAt reads the subscription version in force at block.
func (s *scen) subAt(consumer string, block uint64) subView {
	sub, _, ok := s.w.Keepers.Subscription.GetSubscriptionForBlock(s.w.Ctx, consumer, block)
	if !ok {
		return subView{}
	}
	return subView{found: true, block: sub.Block, credit: sub.Credit.Amount.BigInt(), monthExpiryTime: sub.MonthExpiryTime}
}

// newerTracked tells whether one of the tracked-CU entries already has a version for a later subscription block
// (raw export of the tracked-CU fixation store).
func (s *scen) newerTracked(consumer string, subBlock uint64, entries []entry) bool {
	want := map[string]bool{}
	for _, e := range entries {
		want[subscriptiontypes.CuTrackerKey(consumer, e.provider, e.chain)] = true
	}
	for _, ge := range s.w.Keepers.Subscription.ExportCuTrackers(s.w.Ctx).Entries {
		if !want[ge.Index] {
			continue
		}
		for _, en := range ge.Entries {
			if en.Block > subBlock {
				return true
			}
		}
	}
	return false
}

// latestSub reads the newest version of the subscription (changes are appended for the next epoch).
func (s *scen) latestSub(consumer string) subView {
	w := s.w
	h := uint64(w.Ctx.BlockHeight())
	next, err := w.Keepers.Epochstorage.GetNextEpoch(w.Ctx, h)
	if err != nil {
		next = h
	}
	sub, _, ok := w.Keepers.Subscription.GetSubscriptionForBlock(w.Ctx, consumer, next)
	if !ok {
		return subView{}
	}
	return subView{found: true, block: sub.Block, credit: sub.Credit.Amount.BigInt(), monthExpiryTime: sub.MonthExpiryTime}
}

func (s *scen) records() map[string]*big.Int {
	w := s.w
	out := map[string]*big.Int{}
	for _, r := range w.Keepers.Dualstaking.GetAllDelegatorReward(w.Ctx) {
		if out[r.Provider] == nil {
			out[r.Provider] = new(big.Int)
		}
		out[r.Provider].Add(out[r.Provider], r.Amount.AmountOf(w.TokenDenom()).BigInt())
	}
	return out
}

func (s *scen) bal(addr sdk.AccAddress) *big.Int {
	return s.w.Keepers.BankKeeper.GetBalance(s.w.Ctx, addr, s.w.TokenDenom()).Amount.BigInt()
}

func (s *scen) modBal(m string) *big.Int { return s.bal(testkeeper.GetModuleAddress(m)) }

func (s *scen) provName(addr string) string {
	for i, p := range s.provs {
		if p.Addr.String() == addr {
			return fmt.Sprintf("p%d", i)
		}
	}
	return addr
}

func (s *scen) consName(addr string) string {
	for i, c := range s.cons {
		if c.Addr.String() == addr {
			return fmt.Sprintf("c%d", i)
		}
	}
	return addr
}

func vio(key, what string) ev.Violation { return ev.Violation{Property: "C11", Key: key, What: what} }

// ---------------------------------------------------------------- the block step with the payout oracle

type firing struct {
	t         timer
	entries   []entry
	sum       *big.Int // ΣCU (exact)
	sumU64    uint64
	subBefore subView // newest version before the block
	curBefore subView // version in force at the height at which the timer fires, before the block
	newer     bool    // a tracked entry of this month already has a version for a later subscription block
}

// capTotal is the oracle's "credit capped at the per-CU limit": min(credit, 100·ΣCU), exact arithmetic.
func capTotal(credit, sum *big.Int) *big.Int {
	lim := new(big.Int).Mul(big.NewInt(limitTokenPerCU), sum)
	if credit.Cmp(lim) < 0 {
		return new(big.Int).Set(credit)
	}
	return lim
}

// Alternative totals, only used to CLASSIFY a mismatch (they never make a mismatch acceptable):
// flooredRate: the cap is applied only when ⌊credit/ΣCU⌋ > 100 (so credit may exceed 100·ΣCU by less than ΣCU).
func flooredRateTotal(credit, sum *big.Int) *big.Int {
	q := new(big.Int).Quo(credit, sum)
	if q.Cmp(big.NewInt(limitTokenPerCU)) > 0 {
		return new(big.Int).Mul(big.NewInt(limitTokenPerCU), sum)
	}
	return new(big.Int).Set(credit)
}

// wrappedTotal: like flooredRate but the product 100·ΣCU reduced modulo 2^64.
func wrappedTotal(credit, sum *big.Int) *big.Int {
	q := new(big.Int).Quo(credit, sum)
	if q.Cmp(big.NewInt(limitTokenPerCU)) > 0 {
		p := new(big.Int).Mul(big.NewInt(limitTokenPerCU), sum)
		return p.Mod(p, new(big.Int).Lsh(big.NewInt(1), 64))
	}
	return new(big.Int).Set(credit)
}

type measured struct {
	outflow     *big.Int            // decrease of the subscription module balance in the block
	recDelta    map[string]*big.Int // provider -> increase of its reward records (vault + delegators)
	contrDelta  *big.Int            // increase of the contributor's balance
	staked      map[string]bool     // provider metadata exists (before and after the block)
	contribOn   map[string]bool     // chain has contributors
	subAfter    map[string]subView
	curAfter    map[string]subView // the version that was in force at the firing height, re-read after the block
	monthInSame map[string]bool    // consumer: its month expiry was processed in the same block
}

// evaluate compares the measured effect of the block with the expectation computed from totalFn.
// It returns human readable mismatches (empty: consistent).
func (s *scen) evaluate(fs []firing, m measured, totalFn func(credit, sum *big.Int) *big.Int) []string {
	w := s.w
	var bad []string
	net := map[string]*big.Int{}    // provider -> expected increase of reward records + contributors' part
	gross := map[string]*big.Int{}  // provider -> share (sum of entry shares)
	hasContrib := map[string]bool{} // provider has an entry on a chain with contributors
	outMin, outMax := new(big.Int), new(big.Int)
	credits := new(big.Int)
	for _, f := range fs {
		credits.Add(credits, f.t.credit)
		if f.sum.Sign() == 0 {
			c := f.t.consumer
			after := m.curAfter[c]
			switch {
			case !f.curBefore.found:
				// no subscription at the firing height: the credit goes to the validators pool
				outMin.Add(outMin, f.t.credit)
				outMax.Add(outMax, f.t.credit)
			default:
				// weaker reading: "the subscription" = the version in force at the firing height (it may be a version
				// that is superseded or deleted at the next epoch)
				want := new(big.Int).Add(f.curBefore.credit, f.t.credit)
				if !after.found || after.credit.Cmp(want) != 0 {
					if m.monthInSame[c] {
						// the month expiry of the same subscription was processed in the same block: accept either destination
						outMax.Add(outMax, f.t.credit)
					} else {
						bad = append(bad, fmt.Sprintf("no tracked CU for %s (sub block %d): credit %s must return to the subscription (credit before %s), after the block found=%v credit=%v", s.consName(c), f.t.subBlock, f.t.credit, f.curBefore.credit, after.found, after.credit))
					}
				}
			}
			continue
		}
		total := totalFn(f.t.credit, f.sum)
		for _, e := range f.entries {
			share := new(big.Int).Mul(total, new(big.Int).SetUint64(e.cu))
			share.Quo(share, f.sum)
			if gross[e.provider] == nil {
				gross[e.provider] = new(big.Int)
				net[e.provider] = new(big.Int)
			}
			gross[e.provider].Add(gross[e.provider], share)
			// participation fees of this entry, split by the real rewards keeper (trusted here: C11 pins only the total)
			val, com, err := w.Keepers.Rewards.CalculateValidatorsAndCommunityParticipationRewards(w.Ctx, sdk.NewCoin(w.TokenDenom(), sdk.NewIntFromBigInt(share)))
			fees := new(big.Int)
			if err == nil {
				fees.Add(val.AmountOf(w.TokenDenom()).BigInt(), com.AmountOf(w.TokenDenom()).BigInt())
			}
			outMax.Add(outMax, share)
			if m.staked[e.provider] {
				outMin.Add(outMin, share)
				net[e.provider].Add(net[e.provider], new(big.Int).Sub(share, fees))
				if m.contribOn[e.chain] {
					hasContrib[e.provider] = true
				}
			} else {
				outMin.Add(outMin, fees)
				outMax.Sub(outMax, new(big.Int).Sub(share, fees))
			}
		}
	}
	// (1) bounded: the outflow of the subscription module never exceeds the month credits of the fired timers
	if m.outflow.Cmp(credits) > 0 {
		bad = append(bad, fmt.Sprintf("subscription module paid out %s in the block, the month credit(s) of the fired timer(s) sum to %s", m.outflow, credits))
	}
	// (2) the outflow is exactly the sum of the shares (fees only for providers that cannot be paid)
	if m.outflow.Cmp(outMin) < 0 || m.outflow.Cmp(outMax) > 0 {
		bad = append(bad, fmt.Sprintf("subscription module paid out %s in the block, expected between %s and %s", m.outflow, outMin, outMax))
	}
	// (3) per provider
	provs := map[string]bool{}
	for p := range gross {
		provs[p] = true
	}
	for p := range m.recDelta {
		provs[p] = true
	}
	names := make([]string, 0, len(provs))
	for p := range provs {
		names = append(names, p)
	}
	sort.Strings(names)
	contribSum := new(big.Int)
	for _, p := range names {
		got := m.recDelta[p]
		if got == nil {
			got = new(big.Int)
		}
		g, n := gross[p], net[p]
		if g == nil {
			g, n = new(big.Int), new(big.Int)
		}
		switch {
		case !m.staked[p]:
			if got.Cmp(g) > 0 {
				bad = append(bad, fmt.Sprintf("%s (not staked) received %s > its share %s", s.provName(p), got, g))
			}
		case hasContrib[p]:
			d := new(big.Int).Sub(n, got)
			if d.Sign() < 0 {
				bad = append(bad, fmt.Sprintf("%s and its delegators received %s > share minus participation fees %s (share %s)", s.provName(p), got, n, g))
			}
			contribSum.Add(contribSum, d)
		default:
			if got.Cmp(n) != 0 {
				bad = append(bad, fmt.Sprintf("%s and its delegators received %s, expected %s (share %s minus participation fees)", s.provName(p), got, n, g))
			}
		}
	}
	if contribSum.Cmp(m.contrDelta) != 0 {
		bad = append(bad, fmt.Sprintf("contributors received %s, the parts of the shares not given to provider/delegators/fees sum to %s", m.contrDelta, contribSum))
	}
	return bad
}

// block advances one block and evaluates the payout oracle if a CU-tracker timer fires in it.
func (s *scen) block(dt time.Duration) blockOut {
	w := s.w
	out := blockOut{tags: map[string]bool{}}
	// the CU-tracker timer store is ticked in the END blocker: a timer set for height H fires when block H ends,
	// i.e. at the beginning of the NextBlock call made while the context is at height H
	curH := uint64(w.Ctx.BlockHeight())
	before := s.timers()
	var fs []firing
	pending := map[string]timer{}
	for _, t := range before {
		if t.height > curH {
			pending[tkey(t)] = t
			continue
		}
		if !t.ok {
			out.viol = append(out.viol, vio("timer-data-undecodable", "CU-tracker timer of "+s.consName(t.consumer)+" carries data that does not decode"))
			continue
		}
		f := firing{t: t, sum: new(big.Int), subBefore: s.latestSub(t.consumer), curBefore: s.subAt(t.consumer, curH)}
		list, tot := w.Keepers.Subscription.GetSubTrackedCuInfo(w.Ctx, t.consumer, t.subBlock)
		for _, i := range list {
			f.entries = append(f.entries, entry{provider: i.Provider, chain: i.ChainID, cu: i.TrackedCu})
			f.sum.Add(f.sum, new(big.Int).SetUint64(i.TrackedCu))
		}
		f.sumU64 = tot
		f.newer = s.newerTracked(t.consumer, t.subBlock, f.entries)
		fs = append(fs, f)
	}
	if len(fs) == 0 {
		if p := w.NextBlock(dt); p != "" {
			out.panicMsg = p
		}
		return out
	}
	// ---- pre-state
	subMod0 := s.modBal(subscriptiontypes.ModuleName)
	rec0 := s.records()
	contr0 := s.bal(s.contr.Addr)
	staked0 := map[string]bool{}
	for _, p := range s.provs {
		_, err := w.Keepers.Epochstorage.GetMetadata(w.Ctx, p.Addr.String())
		staked0[p.Addr.String()] = err == nil
	}
	// ---- the block
	if p := w.NextBlock(dt); p != "" {
		out.panicMsg = p
		return out
	}
	// ---- post-state
	after := s.timers()
	afterKeys := map[string]timer{}
	for _, t := range after {
		afterKeys[tkey(t)] = t
	}
	for _, f := range fs {
		if _, still := afterKeys[tkey(f.t)]; still {
			out.viol = append(out.viol, vio("due-timer-did-not-fire", fmt.Sprintf("CU-tracker timer %s due at height %d is still pending after that block", s.consName(f.t.consumer), f.t.height)))
		}
	}
	for k, t := range pending {
		a, ok := afterKeys[k]
		if !ok || string(a.data) != string(t.data) {
			out.viol = append(out.viol, vio("pending-payout-overwritten:block", fmt.Sprintf("pending CU-tracker timer %s (credit %v) vanished or was overwritten during a block before it was due", k, t.credit)))
		}
	}
	m := measured{outflow: new(big.Int).Sub(subMod0, s.modBal(subscriptiontypes.ModuleName)), recDelta: map[string]*big.Int{}, staked: map[string]bool{}, contribOn: map[string]bool{}, subAfter: map[string]subView{}, curAfter: map[string]subView{}, monthInSame: map[string]bool{}}
	rec1 := s.records()
	for p, v := range rec1 {
		d := new(big.Int).Set(v)
		if rec0[p] != nil {
			d.Sub(d, rec0[p])
		}
		if d.Sign() != 0 {
			m.recDelta[p] = d
		}
	}
	for p, v := range rec0 {
		if rec1[p] == nil && v.Sign() != 0 {
			m.recDelta[p] = new(big.Int).Neg(v)
		}
	}
	m.contrDelta = new(big.Int).Sub(s.bal(s.contr.Addr), contr0)
	for _, p := range s.provs {
		_, err := w.Keepers.Epochstorage.GetMetadata(w.Ctx, p.Addr.String())
		m.staked[p.Addr.String()] = staked0[p.Addr.String()] && err == nil
	}
	for _, c := range []string{specA, specB} {
		cs, pc := w.Keepers.Spec.GetContributorReward(w.Ctx, c)
		m.contribOn[c] = len(cs) > 0 && pc.IsPositive()
	}
	for _, f := range fs {
		c := f.t.consumer
		a := s.latestSub(c)
		m.subAfter[c] = a
		m.curAfter[c] = s.subAt(c, curH)
		if f.subBefore.found && (!a.found || a.block != f.subBefore.block || a.monthExpiryTime != f.subBefore.monthExpiryTime) {
			m.monthInSame[c] = true
		}
	}
	// ---- oracle
	desc := func() string {
		var b strings.Builder
		for _, f := range fs {
			fmt.Fprintf(&b, "[timer %s subBlock=%d credit=%s ΣCU=%s:", s.consName(f.t.consumer), f.t.subBlock, f.t.credit, f.sum)
			for _, e := range f.entries {
				fmt.Fprintf(&b, " %s/%s=%d", s.provName(e.provider), e.chain, e.cu)
			}
			b.WriteString("] ")
		}
		return b.String()
	}
	bad := s.evaluate(fs, m, capTotal)
	if len(bad) > 0 {
		key := "payout-mismatch"
		switch {
		case len(s.evaluate(fs, m, flooredRateTotal)) == 0:
			key = "cap-decided-on-floored-rate"
		case len(s.evaluate(fs, m, wrappedTotal)) == 0:
			key = "cap-product-wraps-uint64"
			if s.seeded {
				key = "seeded-state:cap-product-wraps-uint64"
			}
		}
		out.viol = append(out.viol, vio(key, strings.Join(bad, "; ")+" — "+desc()))
	}
	for _, f := range fs {
		if f.sum.Sign() == 0 {
			switch {
			case !f.curBefore.found:
				out.tags["zeroCU:to-validators"] = true
			case !f.subBefore.found || f.subBefore.block != f.curBefore.block:
				// returned to a version that is deleted / superseded at the next epoch (the credit is stranded)
				out.tags["zeroCU:credit-returned-to-outgoing-version"] = true
			default:
				out.tags["zeroCU:credit-returned"] = true
			}
			continue
		}
		lim := new(big.Int).Mul(big.NewInt(limitTokenPerCU), f.sum)
		if f.t.credit.Cmp(lim) > 0 {
			out.tags["cap-binds"] = true
		} else {
			out.tags["credit-binds"] = true
		}
		if len(f.entries) > 1 {
			out.tags["multi-entry"] = true
		}
		for _, e := range f.entries {
			if !m.staked[e.provider] {
				out.tags["unstaked-provider"] = true
			}
		}
		if f.sum.Cmp(new(big.Int).SetUint64(f.sumU64)) != 0 {
			out.viol = append(out.viol, vio("harness:tracked-sum-wrapped", "ΣCU wrapped in uint64: "+desc()))
		}
		// ---- paid at most once: (a) ledger of real firings
		pk := fmt.Sprintf("%s|%d", f.t.consumer, f.t.subBlock)
		if s.paid[pk] {
			out.viol = append(out.viol, vio("second-payout-for-same-month", "a second CU-tracker timer with tracked CU fired for the same subscription month: "+desc()))
		}
		s.paid[pk] = true
	}
	if len(fs) > 1 {
		out.tags["two-timers-one-block"] = true
	}
	// (b) injected re-firing of every fired timer on a fork: providers must not be paid again
	for _, f := range fs {
		if f.sum.Sign() == 0 {
			continue
		}
		newer := f.newer
		restore := w.Fork()
		r0 := s.records()
		func() {
			defer func() { recover() }()
			w.Keepers.Subscription.RewardAndResetCuTracker(w.Ctx, []byte(f.t.consumer), f.t.data)
		}()
		r1 := s.records()
		again := ""
		for p, v := range r1 {
			d := new(big.Int).Set(v)
			if r0[p] != nil {
				d.Sub(d, r0[p])
			}
			if d.Sign() > 0 {
				again += fmt.Sprintf(" %s+%s", s.provName(p), d)
			}
		}
		restore()
		if again != "" {
			if newer {
				out.tags["refire-pays-again(newer-month-version-exists)"] = true
			} else {
				out.viol = append(out.viol, vio("refire-pays-again", "after the payout the tracked CU of the month is not reset: firing the same timer again pays"+again+" — "+desc()))
			}
		} else {
			out.tags["refire-pays-nothing"] = true
		}
	}
	return out
}

func (s *scen) nextEpoch() blockOut {
	w := s.w
	start := w.Keepers.Epochstorage.GetEpochStart(w.Ctx)
	var out blockOut
	for i := 0; i < 100; i++ {
		out.merge(s.block(chain.BlockDt))
		if out.panicMsg != "" || len(out.viol) > 0 || w.Keepers.Epochstorage.GetEpochStart(w.Ctx) != start {
			return out
		}
	}
	out.viol = append(out.viol, vio("harness:epoch-never-advanced", "epoch never advanced"))
	return out
}

// toPayout advances block by block until the earliest pending CU-tracker timer has fired (rejected if none pends).
func (s *scen) toPayout() blockOut {
	ts := s.timers()
	if len(ts) == 0 {
		return blockOut{rejected: true}
	}
	minH := ts[0].height
	for _, t := range ts {
		if t.height < minH {
			minH = t.height
		}
	}
	var out blockOut
	for i := 0; i < 64 && uint64(s.w.Ctx.BlockHeight()) <= minH; i++ {
		out.merge(s.block(chain.BlockDt))
		if out.panicMsg != "" || len(out.viol) > 0 {
			return out
		}
	}
	return out
}

// ---------------------------------------------------------------- bfs.Scenario

func (s *scen) Ops() []string { return s.names }
func (s *scen) Reset()        { s.w.Reset(); s.seeded = false; s.paid = map[string]bool{} }
func (s *scen) Fork() func() {
	r := s.w.Fork()
	seeded := s.seeded
	paid := map[string]bool{}
	for k, v := range s.paid {
		paid[k] = v
	}
	return func() { r(); s.seeded = seeded; s.paid = paid }
}

func (s *scen) Hash() []byte {
	h := s.w.StateHash()
	keys := make([]string, 0, len(s.paid))
	for k := range s.paid {
		keys = append(keys, k)
	}
	sort.Strings(keys)
	return append(h, []byte(fmt.Sprintf("|%v|%s", s.seeded, strings.Join(keys, ";")))...)
}

func firstLine(x string) string {
	if i := strings.IndexByte(x, '\n'); i >= 0 {
		return x[:i]
	}
	return x
}

func stable(x string) string {
	x = firstLine(x)
	var b strings.Builder
	for _, c := range x {
		if c >= '0' && c <= '9' {
			continue
		}
		b.WriteRune(c)
	}
	r := b.String()
	if len(r) > 120 {
		r = r[:120]
	}
	return r
}

func (s *scen) Apply(op int) bfs.Step {
	o := s.ops[op]
	w := s.w
	if o.tx != nil {
		before := s.timers()
		res := o.tx(s)
		if res.Panic != "" {
			if chain.IsMockBankPanic(res.Panic) {
				return bfs.Step{Accepted: false, Obs: "tx-overdraft"}
			}
			return bfs.Step{Accepted: false, Obs: "tx-panic", Viol: []ev.Violation{{Property: "C37", Key: "tx-panic:" + stable(res.Panic), What: "message handler panicked in " + o.name + ": " + firstLine(res.Panic)}}}
		}
		if !res.OK() {
			return bfs.Step{Accepted: false, Obs: "tx-rejected"}
		}
		if strings.HasPrefix(o.name, "SEED") {
			s.seeded = true
		}
		// a pending payout must survive every transaction unchanged
		afterKeys := map[string]timer{}
		for _, t := range s.timers() {
			afterKeys[tkey(t)] = t
		}
		for _, t := range before {
			a, ok := afterKeys[tkey(t)]
			if !ok || string(a.data) != string(t.data) {
				return bfs.Step{Accepted: true, Obs: "violation", Viol: []ev.Violation{vio("pending-payout-overwritten", fmt.Sprintf("%s replaced the pending CU-tracker timer of %s due at height %d (sub block %d, month credit %v): that month's credit is neither paid out nor returned", o.name, s.consName(t.consumer), t.height, t.subBlock, t.credit))}}
			}
		}
		return bfs.Step{Accepted: true, Obs: "tx-ok"}
	}
	out := o.blk(s)
	if out.rejected {
		return bfs.Step{Accepted: false, Obs: "no-pending-timer"}
	}
	if out.panicMsg != "" {
		if chain.IsMockBankPanic(out.panicMsg) {
			return bfs.Step{Accepted: true, Obs: "violation", Viol: []ev.Violation{vio("payout-overdraft", "a payout overdrew the subscription module in block processing ("+o.name+"): "+firstLine(out.panicMsg))}}
		}
		return bfs.Step{Accepted: true, Obs: "block-panic", Viol: []ev.Violation{{Property: "C37", Key: "block-panic:" + stable(out.panicMsg), What: "panic in block processing (" + o.name + "): " + firstLine(out.panicMsg)}}}
	}
	if len(out.viol) > 0 {
		return bfs.Step{Accepted: true, Obs: "violation", Viol: out.viol}
	}
	obs := "block"
	if len(out.tags) > 0 {
		tags := make([]string, 0, len(out.tags))
		for t := range out.tags {
			tags = append(tags, t)
		}
		sort.Strings(tags)
		obs = "payout{" + strings.Join(tags, ",") + "}"
	}
	if w.Ctx.BlockTime().Sub(s.start) > 100*24*time.Hour {
		return bfs.Step{Accepted: true, Prune: true, Obs: obs}
	}
	return bfs.Step{Accepted: true, Obs: obs}
}

var _ = distributiontypes.ModuleName

func init() {
	for _, k := range []string{"zero", "default", "huge"} {
		k := k
		bfs.Register("c11/"+k, func() bfs.Scenario { return build(k) })
	}
	reg.Register(reg.Check{Property: "C11", Level: "model_checking", Run: func(run *ev.Run) {
		type plan struct {
			name     string
			depth    int
			deadline time.Duration
		}
		plans := []plan{{"default", 4, 35 * time.Second}, {"zero", 4, 35 * time.Second}, {"huge", 4, 20 * time.Second}}
		if ev.Tier() == "thorough" {
			plans = []plan{{"default", 5, 5 * time.Minute}, {"zero", 5, 6 * time.Minute}, {"huge", 6, 6 * time.Minute}}
		}
		filtered := ev.NewRun("C11", "model_checking")
		exh := true
		payouts := int64(0)
		for _, p := range plans {
			cfg := bfs.Config{Scenario: "c11/" + p.name, MaxDepth: p.depth, Deadline: p.deadline}
			st := bfs.Explore(cfg, filtered)
			bfs.Report(run, p.name, cfg, st)
			exh = exh && st.Exhaustive
			for o, n := range st.Outcomes {
				if strings.HasPrefix(o, "payout{") {
					payouts += n
				}
			}
		}
		for _, v := range filtered.Violations() {
			if v.Property == "C11" {
				run.Violate(v)
			}
		}
		run.Set("payout_blocks_checked", payouts)
		run.Set("exhaustive", exh)
		run.Set("bound", fmt.Sprintf("all histories up to depth %d/%d/%d over the alphabets of three fixtures: zero (participation fees 0; buy 1m/2m, plan with 201/month, upgrade, 5 payments CU 1/2/300/10^6 to 3 providers on 2 chains, a 1-CU payment with the worst QoS report (tracked CU truncates to 0), 2 seeded CU values, 2 unstakes), default (default participation fees, contributor on one chain, two consumers subscribed in the same block; upgrade, 5 payments, seed 3e9, unstake), huge (month credit 10^21+7; seeds 1/2/3e9/2^63, payment, upgrade); block ops +1 block, next epoch, ->payout (run to the next CU-tracker timer), +1 day, +31 days; horizon 100 days", plans[1].depth, plans[0].depth, plans[2].depth))
		run.Assume("mock bank/account keeper of testutil/keeper; atomic txs emulated as in baseapp; begin/end blockers in app.go order; providers' bonus pools emptied so that monthly bonus rewards do not mix into the reward records; participation fees are split with the real rewards keeper function (C11 pins only the total share); tracked CU is read with the keeper's GetSubTrackedCuInfo before the block; SEED ops inject tracked CU with the exported keeper method AddTrackedCu (state no transaction can produce quickly)")
	}})
}
