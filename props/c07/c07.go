// Package c07: provider stake entries and metadata stay consistent. The world, the two alphabets and the
// oracle (checkC07) live in props/c06 (scenarios "c07/deleg" and "c07/prov").
package c07

import (
	"verifmc/engine/ev"
	"verifmc/engine/reg"
	"verifmc/props/c06"
)

func init() {
	reg.Register(reg.Check{Property: "C07", Level: "model_checking", Run: func(run *ev.Run) { c06.RunCheck(run, "C07") }})
}
