// Package c29coop: provider reward proofs keep the best proof "whatever the arrival order or concurrency" — all
// interleavings (preemption bounded) of 2-4 threads delivering proofs / claiming / snapshotting on the real
// RewardServer (protocol/rpcprovider/rewardserver, rewritten to the sync/atomic/time shims) under the cooperative
// scheduler. The sequential histories (arrival orders, retries, windows, restarts) are covered by props/c29.
//
// Closed system of one execution: the real RewardServer built without its background loop (hook
// VerifNewRewardServer, snapshot timer and threshold out of reach), the real RewardDB over a harness map DB (atomic
// operations: harness code between two scheduling points runs atomically), a stub RewardsTxSender that records
// every TxRelayPayment. The goroutine sendRewardsClaim spawns per chunk is a scheduled thread (rewritten `go`).
//
// Oracles (from the property text, not from the code), evaluated when the execution is quiescent:
//   - per session key (epoch, consumer, chain, session): the proof kept equals the highest cumulative CU among all
//     proofs that were delivered; a snapshot + restart brings back exactly that; the next claim submits exactly that;
//   - with a claim running concurrently: every delivered proof is covered by a successful submission or a proof still
//     held (memory or retry table) with at least its CU (never lost); one claim never carries a proof twice; what the
//     claim submitted and what is kept afterwards is explained by some arrival order of the deliveries around the
//     gathering (highest of the earlier ones submitted, highest of the later ones kept — the reading of props/c29:
//     "highest CU received since the last gathering"); after one more claim the highest CU received has been
//     submitted and every kept proof was submitted exactly once;
//   - a delivery is only refused when a proof with at least its CU was received.
package c29coop

import (
	"bytes"
	"context"
	"fmt"
	"sort"
	"strings"
	gosync "sync"
	"time"

	"github.com/lavanet/lava/v5/protocol/rpcprovider/rewardserver"
	"github.com/lavanet/lava/v5/utils"
	"github.com/lavanet/lava/v5/utils/sigs"
	"github.com/lavanet/lava/v5/utils/verifshim/coop"
	pairingtypes "github.com/lavanet/lava/v5/x/pairing/types"

	"verifmc/engine/coopdrv"
)

const (
	specID     = "LAV1"
	proofEpoch = uint64(20)
	blockDist  = uint64(20) // GetEpochSizeMultipliedByRecommendedEpochNumToCollectPayment
	chainMem   = uint64(20) // earliest block in memory: epoch 20 is still claimable
	claimEpoch = uint64(40) // epoch 20 has left the active window (20 <= 40-20)
	laterEpoch = uint64(50)
	hugeSnap   = 1 << 30 // snapshot threshold / timeout out of reach
)

// ---- proofs (signed once per process; the server never modifies a proof object) -------------------------
type pkey struct {
	cons int
	sid  uint64
}

func (k pkey) String() string { return fmt.Sprintf("c%d/s%d", k.cons+1, k.sid) }

type proofT struct {
	k  pkey
	cu uint64
	rs *pairingtypes.RelaySession
}

var (
	keys     [2]sigs.Account
	addrs    [2]string
	keysInit bool
	proofs   = map[string]*proofT{}
	byPtr    = map[*pairingtypes.RelaySession]*proofT{}
)

func proof(cons int, sid, cu uint64) *proofT {
	if !keysInit {
		utils.SetGlobalLoggingLevel("fatal")
		for ci := 0; ci < 2; ci++ {
			keys[ci] = sigs.GenerateDeterministicFloatingKey(bytes.NewReader([]byte(fmt.Sprintf("c29-consumer-%d--", ci+1))))
			addrs[ci] = keys[ci].Addr.String()
		}
		keysInit = true
	}
	id := fmt.Sprintf("%d/%d/%d", cons, sid, cu)
	if p, ok := proofs[id]; ok {
		return p
	}
	rs := &pairingtypes.RelaySession{
		SpecId:      specID,
		ContentHash: []byte{1},
		SessionId:   sid,
		CuSum:       cu,
		Provider:    "lava@provider",
		RelayNum:    cu/10 + 1, // never a multiple of the snapshot threshold (the threshold channel has no reader)
		Epoch:       int64(proofEpoch),
		LavaChainId: "lava",
	}
	sig, err := sigs.Sign(keys[cons].SK, *rs)
	if err != nil {
		panic(err)
	}
	rs.Sig = sig
	p := &proofT{k: pkey{cons, sid}, cu: cu, rs: rs}
	proofs[id] = p
	byPtr[rs] = p
	return p
}

// ---- harness DB: a map (every operation is atomic under the scheduler) ------------------------------------
type memDB struct{ data map[string][]byte }

func (d *memDB) Key() string                        { return specID }
func (d *memDB) Save(e *rewardserver.DBEntry) error { return d.BatchSave([]*rewardserver.DBEntry{e}) }
func (d *memDB) BatchSave(es []*rewardserver.DBEntry) error {
	for _, e := range es {
		d.data[e.Key] = append([]byte{}, e.Data...)
	}
	return nil
}

func (d *memDB) FindOne(key string) ([]byte, error) {
	if v, ok := d.data[key]; ok {
		return v, nil
	}
	return nil, fmt.Errorf("key not found")
}

func (d *memDB) FindAll() (map[string][]byte, error) {
	c := make(map[string][]byte, len(d.data))
	for k, v := range d.data {
		c[k] = v
	}
	return c, nil
}
func (d *memDB) Delete(key string) error { delete(d.data, key); return nil }
func (d *memDB) DeletePrefix(prefix string) error {
	for k := range d.data {
		if strings.HasPrefix(k, prefix) {
			delete(d.data, k)
		}
	}
	return nil
}
func (d *memDB) Close() error { return nil }

// ---- stub tx sender -----------------------------------------------------------------------------------------
type txCall struct {
	phase int
	ps    []*proofT
	ok    bool
}

type txStub struct {
	mu    gosync.Mutex // never contended inside an execution (one thread runs at a time); real goroutines in final()
	phase *int
	fail  *bool
	calls []txCall
	alien int // proof objects the harness never created
}

func (m *txStub) GetEpochSizeMultipliedByRecommendedEpochNumToCollectPayment(context.Context) (uint64, error) {
	return blockDist, nil
}
func (m *txStub) EarliestBlockInMemory(context.Context) (uint64, error) { return chainMem, nil }
func (m *txStub) GetEpochSize(context.Context) (uint64, error)          { return 10, nil }
func (m *txStub) LatestBlock() int64                                    { return int64(laterEpoch) + 1 }
func (m *txStub) GetAverageBlockTime() time.Duration                    { return time.Millisecond }
func (m *txStub) TxRelayPayment(_ context.Context, relays []*pairingtypes.RelaySession, _ string, _ []*pairingtypes.LatestBlockReport) error {
	m.mu.Lock()
	defer m.mu.Unlock()
	c := txCall{phase: *m.phase, ok: !*m.fail}
	for _, r := range relays {
		p, known := byPtr[r]
		if !known {
			// a proof restored from the DB (a decoded copy): identify it by signer, session and CU
			p = nil
			if signer, err := sigs.ExtractSignerAddress(r); err == nil && uint64(r.Epoch) == proofEpoch && r.SpecId == specID {
				for ci := range addrs {
					if addrs[ci] == signer.String() {
						p = &proofT{k: pkey{ci, r.SessionId}, cu: r.CuSum}
					}
				}
			}
			if p == nil {
				m.alien++
				continue
			}
		}
		c.ps = append(c.ps, p)
	}
	m.calls = append(m.calls, c)
	if !c.ok {
		return fmt.Errorf("tx failed (harness choice)")
	}
	return nil
}

// ---- the system of one execution ----------------------------------------------------------------------------
type delivery struct {
	thread   string
	p        *proofT
	existing uint64
	updated  bool
	done     bool
}

type sys struct {
	report     func(key, what string)
	db         *memDB
	srv        *rewardserver.RewardServer
	tx         *txStub
	phase      int
	fail       bool
	deliveries []*delivery
	claimsRun  int // claims executed by threads
	out        []string
}

func newSys(report func(key, what string)) *sys {
	y := &sys{report: report, db: &memDB{data: map[string][]byte{}}}
	y.tx = &txStub{phase: &y.phase, fail: &y.fail}
	y.srv = y.server(y.tx, 1)
	return y
}

func (y *sys) server(tx rewardserver.RewardsTxSender, id uint64) *rewardserver.RewardServer {
	rdb := rewardserver.NewRewardDB()
	if err := rdb.AddDB(y.db); err != nil {
		panic(err)
	}
	return rewardserver.VerifNewRewardServer(tx, rdb, id, hugeSnap, hugeSnap)
}

// send delivers one proof (as rpcprovider_server does after a relay) and checks the answer.
func (y *sys) send(thread string, p *proofT) {
	d := &delivery{thread: thread, p: p}
	y.deliveries = append(y.deliveries, d)
	d.existing, d.updated = y.srv.SendNewProof(context.Background(), p.rs, proofEpoch, addrs[p.k.cons], "jsonrpc")
	d.done = true
	y.out = append(y.out, fmt.Sprintf("%s:%s=%d->%v/%d", thread, p.k, p.cu, d.updated, d.existing))
	if !d.updated {
		// refused: the provider must have received (call started) another proof of this session with at least this CU
		got := false
		for _, o := range y.deliveries {
			got = got || (o != d && o.p.k == p.k && o.p.cu >= p.cu)
		}
		if !got {
			y.report("refused-though-no-proof-with-at-least-its-cu-was-received", fmt.Sprintf("%s: proof %s cu=%d refused (existing cu %d) but no other proof of this session with cu >= %d was delivered", thread, p.k, p.cu, d.existing, p.cu))
		}
	}
}

func (y *sys) claim(thread string, epoch uint64) {
	err := y.srv.VerifSendRewardsClaim(context.Background(), epoch)
	y.claimsRun++
	if err != nil {
		y.out = append(y.out, thread+":claim-error")
	}
}

func (y *sys) snapshot() {
	y.srv.VerifSnapshot()
	if y.phase == 0 {
		// only snapshots write to the DB: its content is what this snapshot saw
		var ks []string
		for k := range y.db.data {
			ks = append(ks, k[strings.LastIndex(k, ".")-1:strings.LastIndex(k, ".")])
		}
		sort.Strings(ks)
		y.out = append(y.out, "S:saved-sessions="+strings.Join(ks, "+"))
	}
}

func heldOf(srv *rewardserver.RewardServer) (map[pkey]uint64, []string) {
	held := map[pkey]uint64{}
	var odd []string
	for _, h := range srv.VerifDumpProofs() {
		p, known := byPtr[h.Proof]
		if !known {
			// restored from the DB: a decoded copy; identify by content
			ci := -1
			for i := range addrs {
				if addrs[i] == h.Consumer {
					ci = i
				}
			}
			if ci < 0 || h.Proof == nil {
				odd = append(odd, fmt.Sprintf("%+v", h))
				continue
			}
			p = &proofT{k: pkey{ci, h.SessionId}, cu: h.Proof.CuSum}
		}
		if h.Epoch != proofEpoch || h.SessionId != p.k.sid || h.Consumer != addrs[p.k.cons] || h.ConsumerKey != specID+addrs[p.k.cons] {
			odd = append(odd, fmt.Sprintf("proof %s cu=%d filed under epoch %d consumer %s session %d", p.k, p.cu, h.Epoch, h.Consumer, h.SessionId))
			continue
		}
		held[p.k] = p.cu
	}
	return held, odd
}

func fmtHeld(h map[pkey]uint64) string {
	var s []string
	for k, v := range h {
		s = append(s, fmt.Sprintf("%s=%d", k, v))
	}
	sort.Strings(s)
	return strings.Join(s, ",")
}

func (y *sys) fmtCalls(phase int) string {
	var s []string
	for _, c := range y.tx.calls {
		if c.phase != phase {
			continue
		}
		var ps []string
		for _, p := range c.ps {
			ps = append(ps, fmt.Sprintf("%s=%d", p.k, p.cu))
		}
		sort.Strings(ps)
		s = append(s, fmt.Sprintf("tx(%s)ok=%v", strings.Join(ps, ","), c.ok))
	}
	return strings.Join(s, ";")
}

// claimAlone runs one claim of the oracle phase on a scheduler of its own with the default schedule (the goroutines
// the claim spawns are scheduled threads again, so the oracle phase is deterministic as well).
func (y *sys) claimAlone(what string, srv *rewardserver.RewardServer, epoch uint64) {
	s2 := coop.NewSched(nil, 4000)
	var err error
	s2.Go(what, func() { err = srv.VerifSendRewardsClaim(context.Background(), epoch) })
	s2.Run()
	switch {
	case s2.Deadlock || s2.HorizonHit:
		y.report(what+"-does-not-terminate", fmt.Sprintf("deadlock=%v horizon=%v", s2.Deadlock, s2.HorizonHit))
	case err != nil:
		y.report(what+"-failed", err.Error())
	}
	for _, t := range s2.Threads {
		if t.Panic != "" {
			y.report(what+"-panicked", t.Panic)
		}
	}
}

// final is the quiescence oracle.
func (y *sys) final() {
	for _, d := range y.deliveries {
		if !d.done {
			y.report("delivery-never-returned", d.thread)
			return
		}
	}
	if y.tx.alien > 0 {
		y.report("claim-carries-unknown-proof-object", fmt.Sprintf("%d", y.tx.alien))
	}
	// highest CU delivered per session key
	best := map[pkey]uint64{}
	for _, d := range y.deliveries {
		if d.p.cu > best[d.p.k] {
			best[d.p.k] = d.p.cu
		}
	}
	held, odd := heldOf(y.srv)
	for _, o := range odd {
		y.report("kept-proof-misfiled", o)
	}
	retry := map[pkey]uint64{}
	for _, r := range y.srv.VerifDumpRetries() {
		if p, ok := byPtr[r.Session]; ok && p.cu > retry[p.k] {
			retry[p.k] = p.cu
		}
	}
	okSub := map[pkey]uint64{} // highest CU submitted successfully during the execution
	anySub := map[pkey]bool{}
	seenObj := map[*proofT]int{}
	for _, c := range y.tx.calls {
		inCall := map[pkey]int{}
		for _, p := range c.ps {
			anySub[p.k] = true
			seenObj[p]++
			inCall[p.k]++
			if c.ok && p.cu > okSub[p.k] {
				okSub[p.k] = p.cu
			}
			if inCall[p.k] > 1 {
				y.report("one-claim-tx-carries-a-session-twice", fmt.Sprintf("session %s appears %d times in one TxRelayPayment (%s)", p.k, inCall[p.k], y.fmtCalls(0)))
			}
		}
	}
	for p, n := range seenObj {
		if n > y.claimsRun {
			y.report("proof-submitted-more-often-than-claims-ran", fmt.Sprintf("proof %s cu=%d submitted %d times by %d claim(s) (%s)", p.k, p.cu, n, y.claimsRun, y.fmtCalls(0)))
		}
	}
	state := fmt.Sprintf("delivered %v; kept {%s}; retry table %v; submissions %s", y.out, fmtHeld(held), retry, y.fmtCalls(0))
	for k, m := range best {
		safe := held[k]
		if okSub[k] > safe {
			safe = okSub[k]
		}
		if retry[k] > safe {
			safe = retry[k]
		}
		h, isHeld := held[k]
		switch {
		case !anySub[k] && !isHeld:
			y.report("delivered-proof-lost", fmt.Sprintf("session %s: highest delivered cu %d, nothing kept and nothing submitted; %s", k, m, state))
		case !anySub[k] && h < m:
			y.report("kept-proof-not-highest", fmt.Sprintf("session %s: kept cu %d but cu %d was delivered; %s", k, h, m, state))
		case !anySub[k] && h > m:
			y.report("kept-proof-higher-than-any-delivered", fmt.Sprintf("session %s: kept cu %d, highest delivered %d; %s", k, h, m, state))
		case anySub[k] && safe < m:
			y.report("delivered-proof-lost-around-claim", fmt.Sprintf("session %s: cu %d was delivered but the best of {kept, retry table, submitted ok} is %d; %s", k, m, safe, state))
		}
		if y.claimsRun == 1 {
			// the claim gathers at one instant: what it submitted and what is kept afterwards must be explained by SOME
			// split of the concurrent deliveries into "arrived before the gathering" / "arrived after it" (the claim
			// submits the highest of the former, the highest of the latter is kept for the next claim)
			var pre, run []uint64
			for _, d := range y.deliveries {
				if d.p.k != k {
					continue
				}
				if d.thread == "S0" {
					pre = append(pre, d.p.cu)
				} else {
					run = append(run, d.p.cu)
				}
			}
			var subs []uint64
			for _, c := range y.tx.calls {
				for _, p := range c.ps {
					if p.k == k {
						subs = append(subs, p.cu)
					}
				}
			}
			explained := false
			for mask := 0; mask < 1<<len(run) && len(subs) <= 1; mask++ {
				var es, eh uint64
				for _, c := range pre {
					if c > es {
						es = c
					}
				}
				for i, c := range run {
					if mask&(1<<i) != 0 {
						if c > es {
							es = c
						}
					} else if c > eh {
						eh = c
					}
				}
				var s0 uint64
				if len(subs) == 1 {
					s0 = subs[0]
				}
				explained = explained || (s0 == es && h == eh)
			}
			if !explained {
				y.report("claim-and-kept-proof-match-no-arrival-order", fmt.Sprintf("session %s: claim submitted %v and cu %d is kept: no arrival order of the deliveries around the gathering gives that; %s", k, subs, h, state))
			}
		}
	}
	for k := range held {
		if _, ok := best[k]; !ok {
			y.report("kept-proof-never-delivered", k.String())
		}
	}

	// snapshot + restart (only meaningful when no claim ran: claimed proofs stay in the DB until the payment event)
	if y.claimsRun == 0 {
		y.phase = 2
		y.snapshot()
		tx2 := &txStub{phase: &y.phase, fail: new(bool)}
		srv2 := y.server(tx2, 2)
		if err := srv2.VerifRestoreFromDB(specID); err != nil {
			y.report("restore-failed", err.Error())
		}
		held2, odd2 := heldOf(srv2)
		for _, o := range odd2 {
			y.report("restored-proof-misfiled", o)
		}
		if fmtHeld(held2) != fmtHeld(held) {
			y.report("snapshot-restore-differs-from-kept", fmt.Sprintf("kept {%s}, after snapshot + restart {%s}; %s", fmtHeld(held), fmtHeld(held2), state))
		}
		for k, m := range best {
			if held2[k] != m {
				y.report("restart-does-not-bring-back-highest-proof", fmt.Sprintf("session %s: highest delivered cu %d, restored %d; %s", k, m, held2[k], state))
			}
		}
		y.claimAlone("claim-after-restart", srv2, claimEpoch)
		sub2 := map[pkey][]uint64{}
		for _, c := range tx2.calls {
			for _, r := range c.ps {
				sub2[r.k] = append(sub2[r.k], r.cu)
			}
		}
		bad := tx2.alien > 0 || len(sub2) != len(held2)
		for k, cus := range sub2 {
			bad = bad || len(cus) != 1 || cus[0] != held2[k]
		}
		if bad {
			y.report("claim-after-restart-does-not-submit-restored-proofs", fmt.Sprintf("restored {%s}, the claim submitted %v (+%d unidentified); %s", fmtHeld(held2), sub2, tx2.alien, state))
		}
	}

	// one more claim (tx succeeds): the highest CU received must have been submitted, as the last word
	y.phase = 1
	y.fail = false
	y.claimAlone("later-claim", y.srv, laterEpoch)
	maxOK := map[pkey]uint64{}
	cnt := map[*proofT]int{}
	for _, c := range y.tx.calls {
		for _, p := range c.ps {
			if c.phase == 1 {
				cnt[p]++
			}
			if c.ok {
				if p.cu > maxOK[p.k] {
					maxOK[p.k] = p.cu
				}
			}
		}
	}
	for k, m := range best {
		if maxOK[k] != m {
			y.report("highest-proof-never-submitted", fmt.Sprintf("session %s: highest delivered cu %d, highest submitted after a further claim %d; %s; later claim %s", k, m, maxOK[k], state, y.fmtCalls(1)))
		}
	}
	for k, h := range held {
		p := proofs[fmt.Sprintf("%d/%d/%d", k.cons, k.sid, h)]
		if p == nil || cnt[p] != 1 {
			y.report("kept-proof-not-submitted-once-by-next-claim", fmt.Sprintf("session %s cu %d: submitted %d times by the claim at epoch %d; %s; later claim %s", k, h, cnt[p], laterEpoch, state, y.fmtCalls(1)))
		}
	}
	if left, _ := heldOf(y.srv); len(left) != 0 {
		y.report("claimable-proof-left-after-claim", fmt.Sprintf("{%s} still kept after the claim at epoch %d", fmtHeld(left), laterEpoch))
	}
}

func outcomeKey(y *sys) string {
	o := append([]string{}, y.out...)
	sort.Strings(o)
	held, _ := heldOf(y.srv)
	return strings.Join(o, ",") + "|run:" + y.fmtCalls(0) + "|later:" + y.fmtCalls(1) + "|left=" + fmtHeld(held)
}

var lastSys *sys

// Outcome labels an execution for the distinct-outcomes guard.
func Outcome(s *coop.Sched) string {
	if lastSys == nil {
		return ""
	}
	return outcomeKey(lastSys)
}

func reg(name string, setup func(y *sys), threads func(y *sys, s *coop.Sched)) {
	coopdrv.Register("C29", coopdrv.Harness{Name: name, Make: func(s *coop.Sched, report func(key, what string)) func() {
		y := newSys(report)
		lastSys = y
		if setup != nil {
			setup(y) // sequential, before the scheduler is active
		}
		threads(y, s)
		return y.final
	}})
}

func init() {
	// H1: concurrent deliveries for the SAME (epoch, consumer, chain, session)
	reg("H1a-same-session-two-higher", func(y *sys) { y.send("S0", proof(0, 7, 10)) }, func(y *sys, s *coop.Sched) {
		p20, p30 := proof(0, 7, 20), proof(0, 7, 30)
		s.Go("T1", func() { y.send("T1", p20) })
		s.Go("T2", func() { y.send("T2", p30) })
	})
	reg("H1b-same-session-lower-and-higher", func(y *sys) { y.send("S0", proof(0, 7, 20)) }, func(y *sys, s *coop.Sched) {
		p10, p30 := proof(0, 7, 10), proof(0, 7, 30)
		s.Go("T1", func() { y.send("T1", p10) })
		s.Go("T2", func() { y.send("T2", p30) })
	})
	reg("H1c-same-session-three-threads-fresh", nil, func(y *sys, s *coop.Sched) {
		p10, p20, p30, p40 := proof(0, 7, 10), proof(0, 7, 20), proof(0, 7, 30), proof(0, 7, 40)
		s.Go("T1", func() { y.send("T1", p10); y.send("T1", p40) })
		s.Go("T2", func() { y.send("T2", p20) })
		s.Go("T3", func() { y.send("T3", p30) })
	})
	// H2: a delivery racing with the claim of its epoch
	reg("H2a-proof-vs-claim", func(y *sys) { y.send("S0", proof(0, 7, 10)) }, func(y *sys, s *coop.Sched) {
		p30 := proof(0, 7, 30)
		s.Go("A", func() { y.send("A", p30) })
		s.Go("C", func() { y.claim("C", claimEpoch) })
	})
	reg("H2b-proof-vs-claim-tx-fails", func(y *sys) { y.send("S0", proof(0, 7, 10)); y.fail = true }, func(y *sys, s *coop.Sched) {
		p30 := proof(0, 7, 30)
		s.Go("A", func() { y.send("A", p30) })
		s.Go("C", func() { y.claim("C", claimEpoch) })
	})
	reg("H2c-two-consumers-vs-claim", func(y *sys) { y.send("S0", proof(0, 7, 10)); y.send("S0", proof(1, 8, 10)) }, func(y *sys, s *coop.Sched) {
		pa, pb := proof(0, 7, 30), proof(1, 8, 20)
		s.Go("A", func() { y.send("A", pa) })
		s.Go("B", func() { y.send("B", pb) })
		s.Go("C", func() { y.claim("C", claimEpoch) })
	})
	reg("H2d-same-session-two-deliveries-vs-claim", func(y *sys) { y.send("S0", proof(0, 7, 10)) }, func(y *sys, s *coop.Sched) {
		pa, pb := proof(0, 7, 20), proof(0, 7, 30)
		s.Go("A", func() { y.send("A", pa) })
		s.Go("B", func() { y.send("B", pb) })
		s.Go("C", func() { y.claim("C", claimEpoch) })
	})
	// H3: deliveries on DIFFERENT sessions / consumers of one epoch racing with a snapshot to the DB
	reg("H3a-two-consumers-vs-snapshot-fresh", nil, func(y *sys, s *coop.Sched) {
		p1, p2 := proof(0, 7, 10), proof(1, 8, 20)
		s.Go("T1", func() { y.send("T1", p1) })
		s.Go("T2", func() { y.send("T2", p2) })
		s.Go("S", func() { y.snapshot() })
	})
	reg("H3b-two-sessions-one-consumer-vs-snapshot", func(y *sys) { y.send("S0", proof(0, 7, 10)) }, func(y *sys, s *coop.Sched) {
		p1, p2 := proof(0, 7, 30), proof(0, 8, 20)
		s.Go("T1", func() { y.send("T1", p1) })
		s.Go("T2", func() { y.send("T2", p2) })
		s.Go("S", func() { y.snapshot() })
	})
}
