// Package c15: timers fire exactly once, in order, when due — explicit-state search on a
// stand-alone real TimerStore against a sorted-list reference model.
package c15

import (
	"crypto/sha256"
	"fmt"
	"math"
	"sort"
	"strings"
	"time"

	sdk "github.com/cosmos/cosmos-sdk/types"
	timertypes "github.com/lavanet/lava/v5/x/timerstore/types"

	"verifmc/engine/bfs"
	"verifmc/engine/ev"
	"verifmc/engine/memctx"
	"verifmc/engine/reg"
)

type mtimer struct {
	expiry uint64
	key    string
	data   string
}

type opdef struct {
	name string
	kind int // 0 addH 1 addT 2 delH 3 delT 4 tick
	d    uint64
	key  string
	data string
}

type scen struct {
	personality int
	ops         []opdef
	names       []string

	base sdk.Context
	ctx  sdk.Context
	ts   *timertypes.TimerStore

	model [2][]mtimer // sorted by (expiry,key); index = TimerType (0 height, 1 time)
	// logs of the current tick
	realLog  []string
	modelLog []string
	cbCtx    sdk.Context
	tickNo   int
}

func newScen(personality int) *scen {
	s := &scen{personality: personality}
	for _, d := range []uint64{1, 2, 3} {
		for _, k := range []string{"a", "b"} {
			for _, data := range []string{"x", "y"} {
				s.ops = append(s.ops, opdef{fmt.Sprintf("addH+%d:%s=%s", d, k, data), 0, d, k, data})
			}
		}
	}
	for _, d := range []uint64{1, 2, 3} {
		for _, k := range []string{"a", "b"} {
			for _, data := range []string{"x", "y"} {
				s.ops = append(s.ops, opdef{fmt.Sprintf("addT+%d:%s=%s", d, k, data), 1, d, k, data})
			}
		}
	}
	for _, d := range []uint64{1, 2, 3} {
		for _, k := range []string{"a", "b", "c"} {
			s.ops = append(s.ops, opdef{fmt.Sprintf("delH+%d:%s", d, k), 2, d, k, ""})
			s.ops = append(s.ops, opdef{fmt.Sprintf("delT+%d:%s", d, k), 3, d, k, ""})
		}
	}
	for _, d := range []uint64{0, 1, 2} {
		s.ops = append(s.ops, opdef{fmt.Sprintf("tick(+1blk,+%ds)", d), 4, d, "", ""})
	}
	for _, o := range s.ops {
		s.names = append(s.names, o.name)
	}
	ctx, key, cdc := memctx.New("mock")
	s.base = ctx
	s.ts = timertypes.NewTimerStore(key, cdc, "verif_timer")
	s.ts.WithCallbackByBlockHeight(func(ctx sdk.Context, key, data []byte) { s.callback(ctx, timertypes.BlockHeight, key, data) })
	s.ts.WithCallbackByBlockTime(func(ctx sdk.Context, key, data []byte) { s.callback(ctx, timertypes.BlockTime, key, data) })
	return s
}

func (s *scen) Ops() []string { return s.names }

func (s *scen) Reset() {
	cctx, _ := s.base.CacheContext()
	s.ctx = cctx
	s.model = [2][]mtimer{}
	s.tickNo = 0
}

func (s *scen) Fork() func() {
	saved := s.ctx
	m := [2][]mtimer{append([]mtimer{}, s.model[0]...), append([]mtimer{}, s.model[1]...)}
	tn := s.tickNo
	cctx, _ := saved.CacheContext()
	s.ctx = cctx
	return func() { s.ctx = saved; s.model = m; s.tickNo = tn }
}

func (s *scen) now(which int) uint64 {
	if which == 0 {
		return uint64(s.ctx.BlockHeight())
	}
	return uint64(s.ctx.BlockTime().UTC().Unix())
}

// ---- model
func (s *scen) mfind(which int, expiry uint64, key string) int {
	for i, t := range s.model[which] {
		if t.expiry == expiry && t.key == key {
			return i
		}
	}
	return -1
}

func (s *scen) madd(which int, expiry uint64, key, data string) {
	if i := s.mfind(which, expiry, key); i >= 0 {
		s.model[which][i].data = data
		return
	}
	s.model[which] = append(s.model[which], mtimer{expiry, key, data})
	sort.Slice(s.model[which], func(i, j int) bool {
		a, b := s.model[which][i], s.model[which][j]
		if a.expiry != b.expiry {
			return a.expiry < b.expiry
		}
		return a.key < b.key
	})
}

func (s *scen) mdel(which, i int) {
	s.model[which] = append(append([]mtimer{}, s.model[which][:i]...), s.model[which][i+1:]...)
}

// personality applied to the model when timer (which,key) fires at time `now`
func (s *scen) mpersonality(which int, key string, now uint64) {
	switch s.personality {
	case 1:
		if key == "a" {
			s.madd(which, now+1, "c", "z")
		}
	case 2:
		if key == "b" && len(s.model[which]) > 0 {
			s.mdel(which, 0)
		}
	}
}

func (s *scen) mtick(which int, now uint64) {
	for len(s.model[which]) > 0 && s.model[which][0].expiry <= now {
		t := s.model[which][0]
		s.mdel(which, 0)
		s.modelLog = append(s.modelLog, fmt.Sprintf("%d:%s=%s", which, t.key, t.data))
		s.mpersonality(which, t.key, now)
	}
}

// ---- real callback (mirrors the personality on the real store)
func (s *scen) callback(ctx sdk.Context, which timertypes.TimerType, key, data []byte) {
	s.realLog = append(s.realLog, fmt.Sprintf("%d:%s=%s", int(which), key, data))
	var now uint64
	if which == timertypes.BlockHeight {
		now = uint64(ctx.BlockHeight())
	} else {
		now = uint64(ctx.BlockTime().UTC().Unix())
	}
	switch s.personality {
	case 1:
		if string(key) == "a" {
			if which == timertypes.BlockHeight {
				s.ts.AddTimerByBlockHeight(ctx, now+1, []byte("c"), []byte("z"))
			} else {
				s.ts.AddTimerByBlockTime(ctx, now+1, []byte("c"), []byte("z"))
			}
		}
	case 2:
		if string(key) == "b" {
			gs := s.ts.Export(ctx)
			entries := gs.BlockEntries
			if which == timertypes.BlockTime {
				entries = gs.TimeEntries
			}
			if len(entries) > 0 {
				if which == timertypes.BlockHeight {
					s.ts.DelTimerByBlockHeight(ctx, entries[0].Value, []byte(entries[0].Key))
				} else {
					s.ts.DelTimerByBlockTime(ctx, entries[0].Value, []byte(entries[0].Key))
				}
			}
		}
	}
}

func (s *scen) realTimers() [2][]mtimer {
	gs := s.ts.Export(s.ctx)
	var out [2][]mtimer
	for _, e := range gs.BlockEntries {
		out[0] = append(out[0], mtimer{e.Value, e.Key, string(e.Data)})
	}
	for _, e := range gs.TimeEntries {
		out[1] = append(out[1], mtimer{e.Value, e.Key, string(e.Data)})
	}
	return out
}

func (s *scen) viol(key, what string) []ev.Violation {
	return []ev.Violation{{Property: "C15", Key: key, What: what}}
}

func (s *scen) Apply(op int) bfs.Step {
	o := s.ops[op]
	switch o.kind {
	case 0, 1:
		which := o.kind
		exp := s.now(which) + o.d
		// bound the state space: at most 3 timers per kind
		if s.mfind(which, exp, o.key) < 0 && len(s.model[which]) >= 3 {
			return bfs.Step{Accepted: false, Obs: "cap"}
		}
		if i := s.mfind(which, exp, o.key); i >= 0 && s.model[which][i].data == o.data {
			return bfs.Step{Accepted: false, Obs: "noop"}
		}
		if which == 0 {
			s.ts.AddTimerByBlockHeight(s.ctx, exp, []byte(o.key), []byte(o.data))
		} else {
			s.ts.AddTimerByBlockTime(s.ctx, exp, []byte(o.key), []byte(o.data))
		}
		s.madd(which, exp, o.key, o.data)
	case 2, 3:
		which := o.kind - 2
		exp := s.now(which) + o.d
		i := s.mfind(which, exp, o.key)
		if i < 0 {
			// illegal (deleting a missing timer panics by contract) - but Has must say so
			var has bool
			if which == 0 {
				has = s.ts.HasTimerByBlockHeight(s.ctx, exp, []byte(o.key))
			} else {
				has = s.ts.HasTimerByBlockTime(s.ctx, exp, []byte(o.key))
			}
			if has {
				return bfs.Step{Accepted: true, Obs: "has-mismatch", Viol: s.viol("has-true-for-missing", "HasTimer reports a timer the model does not have: "+o.name)}
			}
			return bfs.Step{Accepted: false, Obs: "illegal-del"}
		}
		if which == 0 {
			s.ts.DelTimerByBlockHeight(s.ctx, exp, []byte(o.key))
		} else {
			s.ts.DelTimerByBlockTime(s.ctx, exp, []byte(o.key))
		}
		s.mdel(which, i)
	case 4:
		s.tickNo++
		s.ctx = s.ctx.WithBlockHeight(s.ctx.BlockHeight() + 1).WithBlockTime(s.ctx.BlockTime().Add(time.Duration(o.d) * time.Second))
		s.realLog, s.modelLog = nil, nil
		s.ts.Tick(s.ctx)
		s.mtick(0, s.now(0))
		s.mtick(1, s.now(1))
		if strings.Join(s.realLog, ",") != strings.Join(s.modelLog, ",") {
			return bfs.Step{Accepted: true, Obs: "fire-mismatch", Viol: s.viol("fire-log-mismatch",
				fmt.Sprintf("callbacks fired [%s], reference model expects [%s]", strings.Join(s.realLog, ","), strings.Join(s.modelLog, ",")))}
		}
	}
	// content equality after every step
	real := s.realTimers()
	for which := 0; which < 2; which++ {
		if fmt.Sprint(real[which]) != fmt.Sprint(s.model[which]) {
			return bfs.Step{Accepted: true, Obs: "content-mismatch", Viol: s.viol("content-mismatch",
				fmt.Sprintf("kind %d: store holds %v, model holds %v", which, real[which], s.model[which]))}
		}
		// next-timeout must never be later than the earliest timer (otherwise it would be missed)
		next := s.ts.GetNextTimeoutBlockHeight(s.ctx)
		if which == 1 {
			next = s.ts.GetNextTimeoutBlockTime(s.ctx)
		}
		if len(s.model[which]) > 0 && next > s.model[which][0].expiry {
			return bfs.Step{Accepted: true, Obs: "next-late", Viol: s.viol("next-timeout-late",
				fmt.Sprintf("kind %d: next-timeout %d is later than earliest timer %d", which, next, s.model[which][0].expiry))}
		}
	}
	obs := "ok"
	if o.kind == 4 {
		obs = fmt.Sprintf("tick-fired-%d", len(s.realLog))
	}
	return bfs.Step{Accepted: true, Obs: obs}
}

// Hash: timers and next-timeouts relative to (height, time) — the store only compares expiries with
// the current height/time, so behaviour is translation invariant.
func (s *scen) Hash() []byte {
	h := sha256.New()
	real := s.realTimers()
	for which := 0; which < 2; which++ {
		now := s.now(which)
		for _, t := range real[which] {
			fmt.Fprintf(h, "%d|%d|%s|%s;", which, int64(t.expiry)-int64(now), t.key, t.data)
		}
		next := s.ts.GetNextTimeoutBlockHeight(s.ctx)
		if which == 1 {
			next = s.ts.GetNextTimeoutBlockTime(s.ctx)
		}
		if next == math.MaxUint64 {
			fmt.Fprint(h, "next=max;")
		} else {
			rel := int64(next) - int64(now)
			if rel < 0 {
				rel = -1 // any stale value in the past behaves identically (tick scans)
			}
			fmt.Fprintf(h, "next=%d;", rel)
		}
	}
	return h.Sum(nil)[:16]
}

func init() {
	for p, n := range []string{"inert", "adder", "deleter"} {
		p := p
		bfs.Register("c15/"+n, func() bfs.Scenario { return newScen(p) })
	}
	reg.Register(reg.Check{Property: "C15", Level: "model_checking", Run: func(run *ev.Run) {
		depth := 5
		deadline := 100 * time.Second
		if ev.Tier() == "thorough" {
			depth = 8
			deadline = 15 * time.Minute
		}
		exh := true
		for _, n := range []string{"inert", "adder", "deleter"} {
			cfg := bfs.Config{Scenario: "c15/" + n, MaxDepth: depth, Deadline: deadline / 3}
			st := bfs.Explore(cfg, run)
			bfs.Report(run, n, cfg, st)
			exh = exh && st.Exhaustive
		}
		run.Set("exhaustive", exh)
		run.Set("bound", fmt.Sprintf("all op sequences up to depth %d over 45 ops, <=3 timers per kind, 3 callback personalities", depth))
		run.Assume("timer store behaviour is translation invariant in height/time (it only compares expiries with the current values); states are merged modulo translation")
	}})
}
