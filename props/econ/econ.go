// Package econ: the "kitchen-sink" economy scenario shared by C09 (supply never increases), C10 (escrowed
// obligations are backed) and C37 (block processing never halts the chain) — BFS over histories on the real keepers.
package econ

import (
	"fmt"
	"os"
	"strings"
	"time"

	sdk "github.com/cosmos/cosmos-sdk/types"
	authtypes "github.com/cosmos/cosmos-sdk/x/auth/types"
	govtypes "github.com/cosmos/cosmos-sdk/x/gov/types"
	"github.com/lavanet/lava/v5/testutil/common"
	testkeeper "github.com/lavanet/lava/v5/testutil/keeper"
	"github.com/lavanet/lava/v5/utils/sigs"
	dualstakingtypes "github.com/lavanet/lava/v5/x/dualstaking/types"
	pairingtypes "github.com/lavanet/lava/v5/x/pairing/types"
	planstypes "github.com/lavanet/lava/v5/x/plans/types"
	rewardstypes "github.com/lavanet/lava/v5/x/rewards/types"
	subscriptiontypes "github.com/lavanet/lava/v5/x/subscription/types"

	"verifmc/engine/bfs"
	"verifmc/engine/chain"
	"verifmc/engine/ev"
	"verifmc/engine/reg"
)

type opdef struct {
	name string
	run  func(s *scen) chain.TxResult // nil for block ops
	blk  func(s *scen) string
}

type scen struct {
	w       *chain.World
	ops     []opdef
	names   []string
	cons    []sigs.Account
	provs   []sigs.Account
	deleg   sigs.Account
	val     sigs.Account
	session uint64
	start   time.Time
}

const (
	specA = "mocka"
	specB = "mockb"
)

func coin(w *chain.World, n int64) sdk.Coin { return sdk.NewCoin(w.TokenDenom(), sdk.NewInt(n)) }

func build(kind string) *scen {
	aged := kind == "aged"
	s := &scen{}
	w := chain.NewWorld()
	s.w = w
	w.SetEpochParams(4, 3)
	s.val = w.AddValidator(0, 1000000)
	w.Must("specA", w.AddSpecGov(chain.MockSpec(specA)))
	w.Must("specB", w.AddSpecGov(chain.MockSpec(specB)))
	planA := common.CreateMockPlan()
	planA.Index = "plana"
	planA.Price = coin(w, 100000)
	planA.AnnualDiscountPercentage = 10
	planB := common.CreateMockPlan()
	planB.Index = "planb"
	planB.Price = coin(w, 300000)
	w.Must("plans", w.AddPlanGov(false, planA, planB))
	for i := 0; i < 2; i++ {
		p, _ := w.AddAccount(common.PROVIDER, i, 100000000)
		s.provs = append(s.provs, p)
		w.Must("stake", w.Stake(p, specA, 100000, 1, nil, uint64(50*i)))
		w.Must("stake", w.Stake(p, specB, 100000, 1, nil, uint64(50*i)))
	}
	p2, _ := w.AddAccount(common.PROVIDER, 2, 100000000) // staked only in the "young" fixture
	s.provs = append(s.provs, p2)
	for i := 0; i < 2; i++ {
		c, _ := w.AddAccount(common.CONSUMER, i, 2000000)
		s.cons = append(s.cons, c)
	}
	s.deleg, _ = w.AddAccount("delegator", 0, 1000000)
	// IPRPC: c0 is eligible, minimum cost 100
	w.Must("iprpc data", w.Tx(func() error {
		_, err := w.TxRewardsSetIprpcDataProposal(authtypes.NewModuleAddress(govtypes.ModuleName).String(), coin(w, 100), []string{s.cons[0].Addr.String()})
		return err
	}))
	w.AdvanceToNextEpoch(chain.BlockDt)
	w.AdvanceToNextEpoch(chain.BlockDt)
	if aged {
		// a chain that already lived through a month with payouts, a delegation, IPRPC funding and an upgrade
		w.Must("buy", w.Buy(s.cons[0], s.cons[0], "plana", 2, true, false))
		w.Must("buy", w.Buy(s.cons[1], s.cons[1], "plana", 1, false, false))
		w.Must("fund", s.fund(0, specA, 2, 5000))
		w.Must("fund", s.fund(1, specB, 3, 3000)) // two specs funded for the same months: partially serviced months are reachable
		w.Must("delegate", s.delegate(0, 50000))
		w.AdvanceToNextEpoch(chain.BlockDt)
		w.Must("pay", s.pay(0, 0, specA, 500))
		w.Must("pay", s.pay(1, 1, specB, 700))
		w.Must("upgrade", w.Buy(s.cons[1], s.cons[1], "planb", 1, false, false))
		w.NextBlock(31 * 24 * time.Hour)
		w.AdvanceToNextEpoch(chain.BlockDt)
		w.NextBlock(24 * time.Hour)
		w.AdvanceToNextEpoch(chain.BlockDt)
	}
	if kind == "late" {
		// subscriptions bought 12 h before a monthly pools refill and served: a month later their month expires, and
		// the payout (blocks-to-save later) falls into the last 24 h before the next refill. The fixture stops one
		// block before the payouts run.
		must := func(p string) {
			if p != "" {
				panic("fixture(late): " + p)
			}
		}
		must(w.NextBlock(time.Duration(w.Keepers.Rewards.TimeToNextTimerExpiry(w.Ctx))*time.Second - 12*time.Hour))
		must(w.AdvanceToNextEpoch(chain.BlockDt))
		w.Must("buy", w.Buy(s.cons[0], s.cons[0], "plana", 2, false, false))
		w.Must("buy", w.Buy(s.cons[1], s.cons[1], "planb", 1, false, false))
		w.Must("fund", s.fund(0, specA, 2, 5000))
		w.Must("delegate", s.delegate(0, 50000))
		must(w.AdvanceToNextEpoch(chain.BlockDt))
		w.Must("pay", s.pay(0, 0, specA, 500))
		w.Must("pay", s.pay(1, 1, specB, 700))
		must(w.NextBlock(24 * time.Hour)) // the refill
		must(w.AdvanceToNextEpoch(chain.BlockDt))
		w.Must("pay", s.pay(0, 0, specA, 300))
		sub, ok := w.Keepers.Subscription.GetSubscription(w.Ctx, s.cons[0].Addr.String())
		if !ok {
			panic("fixture(late): no subscription")
		}
		for time.Unix(int64(sub.MonthExpiryTime), 0).Sub(w.Ctx.BlockTime()) > 25*time.Hour {
			must(w.NextBlock(24 * time.Hour))
		}
		must(w.AdvanceToNextEpoch(chain.BlockDt))
		// cross the month expiry (the payout timers are armed blocks-to-save blocks ahead), then one long block up to
		// 12 h before the refill: the payouts are still pending and will run inside the last 24 h
		if left := time.Unix(int64(sub.MonthExpiryTime), 0).Sub(w.Ctx.BlockTime()); left > 0 {
			must(w.NextBlock(left + time.Second))
		}
		must(w.NextBlock(chain.BlockDt))
		if ttl := w.Keepers.Rewards.TimeToNextTimerExpiry(w.Ctx); ttl > 13*3600 {
			must(w.NextBlock(time.Duration(ttl)*time.Second - 12*time.Hour))
		}
		if ttl := w.Keepers.Rewards.TimeToNextTimerExpiry(w.Ctx); ttl <= 0 || ttl > 24*3600 {
			panic(fmt.Sprintf("fixture(late): %d s to the next refill, want within the last 24 h", ttl))
		}
		if n := len(w.Keepers.Subscription.ExportCuTrackerTimers(w.Ctx).BlockEntries); n == 0 {
			panic("fixture(late): no payout pending")
		}
	}
	if kind == "young" {
		// ten minutes before a served subscription's month expires a new provider stakes; one epoch later it is
		// pairable. Its self delegation is less than an hour old when the month's payout (blocks-to-save after the
		// expiry) runs: the time-weighted delegation credit is computed in whole hours.
		must := func(p string) {
			if p != "" {
				panic("fixture(young): " + p)
			}
		}
		w.Must("buy", w.Buy(s.cons[0], s.cons[0], "plana", 2, false, false))
		w.Must("buy", w.Buy(s.cons[1], s.cons[1], "planb", 1, false, false))
		must(w.AdvanceToNextEpoch(chain.BlockDt))
		w.Must("pay", s.pay(0, 0, specA, 500))
		sub, ok := w.Keepers.Subscription.GetSubscription(w.Ctx, s.cons[0].Addr.String())
		if !ok {
			panic("fixture(young): no subscription")
		}
		for time.Unix(int64(sub.MonthExpiryTime), 0).Sub(w.Ctx.BlockTime()) > 25*time.Hour {
			must(w.NextBlock(24 * time.Hour))
		}
		must(w.AdvanceToNextEpoch(chain.BlockDt))
		if left := time.Unix(int64(sub.MonthExpiryTime), 0).Sub(w.Ctx.BlockTime()) - 10*time.Minute; left > 0 {
			must(w.NextBlock(left))
		}
		w.Must("stake", w.Stake(s.provs[2], specA, 100000, 1, nil, 20))
		w.Must("stake", w.Stake(s.provs[2], specB, 100000, 1, nil, 20))
		must(w.AdvanceToNextEpoch(chain.BlockDt))
		if left := time.Unix(int64(sub.MonthExpiryTime), 0).Sub(w.Ctx.BlockTime()); left <= 0 || left > 10*time.Minute {
			panic(fmt.Sprintf("fixture(young): %s to the month expiry", left))
		}
	}
	s.start = w.Ctx.BlockTime()
	w.MarkFixture()
	tx := func(name string, f func(s *scen) chain.TxResult) { s.ops = append(s.ops, opdef{name: name, run: f}) }
	blk := func(name string, f func(s *scen) string) { s.ops = append(s.ops, opdef{name: name, blk: f}) }
	tx("buy(c0,planA,1m)", func(s *scen) chain.TxResult { return s.w.Buy(s.cons[0], s.cons[0], "plana", 1, false, false) })
	tx("buy(c1,planB,2m,autorenew)", func(s *scen) chain.TxResult { return s.w.Buy(s.cons[1], s.cons[1], "planb", 2, true, false) })
	tx("buy(c0,planB,1m,advance)", func(s *scen) chain.TxResult { return s.w.Buy(s.cons[0], s.cons[0], "planb", 1, false, true) })
	tx("buy(c0,planA,12m)", func(s *scen) chain.TxResult { return s.w.Buy(s.cons[0], s.cons[0], "plana", 12, false, false) })
	tx("fundIprpc(c0,specA,1m,1000)", func(s *scen) chain.TxResult { return s.fund(0, specA, 1, 1000) })
	tx("fundIprpc(c1,specB,2m,1001)", func(s *scen) chain.TxResult { return s.fund(1, specB, 2, 1001) })
	tx("pay(p0,c0,specA,100)", func(s *scen) chain.TxResult { return s.pay(0, 0, specA, 100) })
	tx("pay(p1,c0,specA,300)", func(s *scen) chain.TxResult { return s.pay(1, 0, specA, 300) })
	tx("pay(p1,c1,specB,700)", func(s *scen) chain.TxResult { return s.pay(1, 1, specB, 700) })
	tx("pay(p2,c0,specA,200)", func(s *scen) chain.TxResult { return s.pay(2, 0, specA, 200) })
	tx("delegate(d,p0,50000)", func(s *scen) chain.TxResult { return s.delegate(0, 50000) })
	// a dust delegation next to a large one: uniform unbonding (slash, validator-side undelegation) gives it a zero share
	tx("delegate(d,p1,1)", func(s *scen) chain.TxResult { return s.delegate(1, 1) })
	tx("unbond(d,p0,20000)", func(s *scen) chain.TxResult {
		return s.w.Tx(func() error {
			msg := &dualstakingtypes.MsgUnbond{Creator: s.deleg.Addr.String(), Validator: sdk.ValAddress(s.val.Addr).String(), Provider: s.provs[0].Addr.String(), ChainID: specA, Amount: coin(s.w, 20000)}
			if err := msg.ValidateBasic(); err != nil {
				return err
			}
			_, err := s.w.Servers.DualstakingServer.Unbond(s.w.GoCtx, msg)
			return err
		})
	})
	tx("claim(d)", func(s *scen) chain.TxResult { return s.claim(s.deleg.Addr.String()) })
	tx("claim(vault p0)", func(s *scen) chain.TxResult { return s.claim(s.provs[0].GetVaultAddr()) })
	tx("unstake(p1,specB)", func(s *scen) chain.TxResult {
		return s.w.Tx(func() error {
			msg := &pairingtypes.MsgUnstakeProvider{Creator: s.provs[1].GetVaultAddr(), Validator: sdk.ValAddress(s.val.Addr).String(), ChainID: specB}
			if err := msg.ValidateBasic(); err != nil {
				return err
			}
			_, err := s.w.Servers.PairingServer.UnstakeProvider(s.w.GoCtx, msg)
			return err
		})
	})
	tx("gov:planA-new-version", func(s *scen) chain.TxResult {
		p := common.CreateMockPlan()
		p.Index = "plana"
		p.Price = coin(s.w, 150000)
		return s.w.AddPlanGov(false, p)
	})
	tx("gov:del-planB", func(s *scen) chain.TxResult { return s.w.DelPlanGov("planb") })
	blk("slash(val,1/2)+block", func(s *scen) string {
		// modelled on what the slashing (downtime) and evidence (double sign) modules do in BeginBlock: a validator that
		// is not unbonded and not jailed loses a fraction of its current stake and is jailed; a jailed validator must be
		// unjailed by its operator before it can be slashed again. (A first version burned a fixed 500000 per slash
		// whatever the validator still had and never jailed it: two slashes emptied the validator completely, which the
		// real modules cannot do with a fraction below 1 - that was a false alarm of the harness.)
		valAddr := sdk.ValAddress(s.val.Addr)
		if v, ok := s.w.Keepers.StakingKeeper.GetValidator(s.w.Ctx, valAddr); !ok || v.IsUnbonded() || v.IsJailed() || v.Tokens.LT(sdk.NewInt(2)) {
			return "__illegal__"
		}
		s.w.BeginBlockInject = func(ctx sdk.Context) {
			v, ok := s.w.Keepers.StakingKeeper.GetValidator(ctx, valAddr)
			if !ok || v.IsUnbonded() || v.IsJailed() || v.Tokens.LT(sdk.NewInt(2)) {
				return // evidence against an unbonded validator is ignored
			}
			// half of the current tokens, expressed as a fraction of consensus power 1 (= 10^6 tokens)
			fraction := sdk.NewDecFromInt(v.Tokens.QuoRaw(2)).QuoInt64(1000000)
			cons := sdk.GetConsAddress(s.val.PubKey)
			s.w.Keepers.SlashingKeeper.Slash(ctx, cons, fraction, 1, ctx.BlockHeight()-1)
			s.w.Keepers.SlashingKeeper.Jail(ctx, cons)
		}
		return s.w.NextBlock(chain.BlockDt)
	})
	tx("unjail(val)", func(s *scen) chain.TxResult {
		return s.w.Tx(func() error { return s.w.Keepers.SlashingKeeper.Unjail(s.w.Ctx, sdk.ValAddress(s.val.Addr)) })
	})
	blk("+1block", func(s *scen) string { return s.w.NextBlock(chain.BlockDt) })
	blk("next-epoch", func(s *scen) string { return s.w.AdvanceToNextEpoch(chain.BlockDt) })
	blk("past-memory", func(s *scen) string {
		for i := 0; i < 4; i++ {
			if p := s.w.AdvanceToNextEpoch(chain.BlockDt); p != "" {
				return p
			}
		}
		return ""
	})
	blk("+1day", func(s *scen) string { return s.w.NextBlock(24 * time.Hour) })
	blk("+31days", func(s *scen) string { return s.w.NextBlock(31 * 24 * time.Hour) })
	for _, o := range s.ops {
		s.names = append(s.names, o.name)
	}
	return s
}

func (s *scen) fund(c int, spec string, months uint64, amt int64) chain.TxResult {
	w := s.w
	return w.Tx(func() error {
		msg := rewardstypes.NewMsgFundIprpc(s.cons[c].Addr.String(), spec, months, sdk.NewCoins(coin(w, amt)))
		if err := msg.ValidateBasic(); err != nil {
			return err
		}
		_, err := w.Servers.RewardsServer.FundIprpc(w.GoCtx, msg)
		return err
	})
}

func (s *scen) delegate(p int, amt int64) chain.TxResult {
	w := s.w
	return w.Tx(func() error {
		msg := &dualstakingtypes.MsgDelegate{Creator: s.deleg.Addr.String(), Validator: sdk.ValAddress(s.val.Addr).String(), Provider: s.provs[p].Addr.String(), ChainID: specA, Amount: coin(w, amt)}
		if err := msg.ValidateBasic(); err != nil {
			return err
		}
		_, err := w.Servers.DualstakingServer.Delegate(w.GoCtx, msg)
		return err
	})
}

func (s *scen) claim(who string) chain.TxResult {
	w := s.w
	return w.Tx(func() error {
		msg := &dualstakingtypes.MsgClaimRewards{Creator: who, Provider: ""}
		if err := msg.ValidateBasic(); err != nil {
			return err
		}
		_, err := w.Servers.DualstakingServer.ClaimRewards(w.GoCtx, msg)
		return err
	})
}

func (s *scen) pay(p, c int, spec string, cu uint64) chain.TxResult {
	w := s.w
	s.session++
	rs := &pairingtypes.RelaySession{Provider: s.provs[p].Addr.String(), ContentHash: []byte("apiname"), SessionId: uint64(w.Ctx.BlockHeight())*1000 + uint64(p*10+c) + s.session*0, SpecId: spec,
		CuSum: cu, Epoch: int64(w.EpochStartNow()), RelayNum: 1, LavaChainId: chain.ChainID}
	// session id: unique per (block, provider, consumer) so that repeating the op in a later block is a new session
	chain.SignRelay(s.cons[c], rs)
	return w.Tx(func() error {
		msg := &pairingtypes.MsgRelayPayment{Creator: rs.Provider, Relays: []*pairingtypes.RelaySession{rs}, DescriptionString: "verif"}
		if err := msg.ValidateBasic(); err != nil {
			return err
		}
		_, err := w.Servers.PairingServer.RelayPayment(w.GoCtx, msg)
		return err
	})
}

func (s *scen) Ops() []string { return s.names }
func (s *scen) Reset()        { s.w.Reset(); s.session = 0 }
func (s *scen) Fork() func() {
	r := s.w.Fork()
	ss := s.session
	return func() { r(); s.session = ss }
}
func (s *scen) Hash() []byte { return s.w.StateHash() }

func firstLine(x string) string {
	if i := strings.IndexByte(x, '\n'); i >= 0 {
		return x[:i]
	}
	return x
}

// stripDigits makes panic messages stable keys.
func stable(x string) string {
	x = firstLine(x)
	var b strings.Builder
	for _, c := range x {
		if c >= '0' && c <= '9' {
			continue
		}
		b.WriteRune(c)
	}
	r := b.String()
	if len(r) > 120 {
		r = r[:120]
	}
	return r
}

// solvency evaluates the three escrow inequalities of C10.
func (s *scen) solvency() []ev.Violation {
	w := s.w
	denom := w.TokenDenom()
	var out []ev.Violation
	// (a) dualstaking module holds all claimable delegator rewards
	owed := sdk.ZeroInt()
	for _, r := range w.Keepers.Dualstaking.GetAllDelegatorReward(w.Ctx) {
		owed = owed.Add(r.Amount.AmountOf(denom))
	}
	if bal := w.ModuleBalance(dualstakingtypes.ModuleName); bal.LT(owed) {
		out = append(out, ev.Violation{Property: "C10", Key: "dualstaking-underfunded", What: fmt.Sprintf("dualstaking module holds %s but claimable delegator rewards sum to %s", bal, owed)})
	}
	// (b) IPRPC pool holds the funds promised to the current and future months
	cur := w.Keepers.Rewards.GetIprpcRewardsCurrentId(w.Ctx)
	promised := sdk.ZeroInt()
	for _, r := range w.Keepers.Rewards.GetAllIprpcReward(w.Ctx) {
		if r.Id < cur {
			continue
		}
		for _, sf := range r.SpecFunds {
			promised = promised.Add(sf.Fund.AmountOf(denom))
		}
	}
	if bal := w.ModuleBalance(string(rewardstypes.IprpcPoolName)); bal.LT(promised) {
		out = append(out, ev.Violation{Property: "C10", Key: "iprpc-pool-underfunded", What: fmt.Sprintf("IPRPC pool holds %s but current+future IPRPC rewards sum to %s", bal, promised)})
	}
	// (c) subscription module holds the credit of live subscriptions, advance purchases and pending payouts
	credit := sdk.ZeroInt()
	detail := ""
	for _, c := range s.cons {
		// the most recent version of the subscription (changes are appended for the next epoch)
		nextEpoch, nerr := w.Keepers.Epochstorage.GetNextEpoch(w.Ctx, uint64(w.Ctx.BlockHeight()))
		if nerr != nil {
			nextEpoch = uint64(w.Ctx.BlockHeight())
		}
		if sub, _, ok := w.Keepers.Subscription.GetSubscriptionForBlock(w.Ctx, c.Addr.String(), nextEpoch); ok {
			credit = credit.Add(sub.Credit.Amount)
			detail += fmt.Sprintf(" sub(%s dur=%d/%d)", sub.Credit.Amount, sub.DurationLeft, sub.DurationBought)
			if sub.FutureSubscription != nil {
				credit = credit.Add(sub.FutureSubscription.Credit.Amount)
				detail += fmt.Sprintf(" future(%s)", sub.FutureSubscription.Credit.Amount)
			}
		}
	}
	timers := w.Keepers.Subscription.ExportCuTrackerTimers(w.Ctx)
	for _, t := range append(timers.BlockEntries, timers.TimeEntries...) {
		var d subscriptiontypes.CuTrackerTimerData
		if err := d.Unmarshal(t.Data); err == nil && !d.Credit.Amount.IsNil() {
			credit = credit.Add(d.Credit.Amount)
			detail += fmt.Sprintf(" timer(%s)", d.Credit.Amount)
		}
	}
	if os.Getenv("VERIF_DEBUG") != "" {
		fmt.Fprintf(os.Stderr, "[solvency] sub module=%s credit=%s detail=%s\n", w.ModuleBalance(subscriptiontypes.ModuleName), credit, detail)
	}
	if bal := w.ModuleBalance(subscriptiontypes.ModuleName); bal.LT(credit) {
		out = append(out, ev.Violation{Property: "C10", Key: "subscription-module-underfunded", What: fmt.Sprintf("subscription module holds %s but live credit + advance purchases + pending payouts sum to %s", bal, credit)})
	}
	return out
}

func (s *scen) Apply(op int) bfs.Step {
	o := s.ops[op]
	w := s.w
	before := w.Supply()
	var viol []ev.Violation
	obs := ""
	accepted := true
	if o.run != nil {
		res := o.run(s)
		switch {
		case res.Panic != "" && chain.IsMockBankPanic(res.Panic):
			// the real bank returns ErrInsufficientFunds: the tx fails; for an escrow account that is C10's business
			viol = append(viol, ev.Violation{Property: "C10", Key: "tx-overdraft:" + o.name, What: "a module account could not pay inside " + o.name + " (mock bank overdraft): " + firstLine(res.Panic)})
			accepted = false
		case res.Panic != "":
			viol = append(viol, ev.Violation{Property: "C37", Key: "tx-panic:" + stable(res.Panic), What: "message handler panicked in " + o.name + ": " + firstLine(res.Panic)})
			accepted = false
		case !res.OK():
			return bfs.Step{Accepted: false, Obs: "tx-rejected"}
		}
		obs = "tx-ok"
	} else {
		p := o.blk(s)
		if p == "__illegal__" {
			return bfs.Step{Accepted: false, Obs: "illegal-block-op"}
		}
		if p != "" {
			if chain.IsMockBankPanic(p) {
				viol = append(viol, ev.Violation{Property: "C10", Key: "block-overdraft", What: "a payout/refill in block processing overdrew an account (" + o.name + "): " + firstLine(p)})
			} else {
				viol = append(viol, ev.Violation{Property: "C37", Key: "block-panic:" + stable(p), What: "panic in block processing (" + o.name + "): " + firstLine(p)})
			}
		}
		obs = "block"
	}
	if os.Getenv("VERIF_DEBUG") != "" {
		ds, _ := w.Keepers.Dualstaking.GetAllDelegations(w.Ctx)
		for _, d := range ds {
			fmt.Fprintf(os.Stderr, "  [deleg] %s -> %s : %s (credit %s @%d)\n", d.Delegator, d.Provider, d.Amount, d.Credit, d.CreditTimestamp)
		}
		for _, v := range w.Keepers.StakingKeeper.GetAllValidators(w.Ctx) {
			fmt.Fprintf(os.Stderr, "  [val] %s tokens=%s shares=%s status=%s jailed=%v\n", v.OperatorAddress, v.Tokens, v.DelegatorShares, v.Status, v.Jailed)
		}
	}
	after := w.Supply()
	if after.GT(before) {
		viol = append(viol, ev.Violation{Property: "C09", Key: "supply-increased:" + o.name, What: fmt.Sprintf("total supply of the bond denom rose from %s to %s in %s", before, after, o.name)})
	} else if after.LT(before) {
		obs += "-burn"
	}
	if len(viol) == 0 {
		viol = append(viol, s.solvency()...)
	}
	if len(viol) > 0 {
		return bfs.Step{Accepted: accepted, Obs: "violation", Viol: viol}
	}
	// horizon: three months
	if w.Ctx.BlockTime().Sub(s.start) > 100*24*time.Hour {
		return bfs.Step{Accepted: true, Prune: true, Obs: "horizon"}
	}
	return bfs.Step{Accepted: true, Obs: obs}
}

var _ = planstypes.Policy{}
var _ = testkeeper.GetModuleAddress

func runCheck(property string) func(run *ev.Run) {
	return func(run *ev.Run) {
		depth, deadline := 4, 200*time.Second
		if ev.Tier() == "thorough" {
			depth, deadline = 6, 25*time.Minute
		}
		filtered := ev.NewRun(property, "model_checking")
		exh := true
		begin := time.Now()
		for i, n := range []string{"aged", "late", "young", "fresh"} {
			dl := deadline * 3 / 10
			if i == 1 || i == 2 {
				dl = deadline * 2 / 10
			}
			if i == 3 {
				dl = deadline - time.Since(begin)
				if dl < 20*time.Second {
					dl = 20 * time.Second
				}
			}
			cfg := bfs.Config{Scenario: "econ/" + n, MaxDepth: depth, Deadline: dl}
			st := bfs.Explore(cfg, filtered)
			bfs.Report(run, n, cfg, st)
			exh = exh && st.Exhaustive
		}
		if property == "C37" {
			// closing a conflict vote (conflict BeginBlock at an epoch start) when a juror has unstaked meanwhile: the
			// reveal-phase start state of C20, only chain-halt findings are kept here
			cfg := bfs.Config{Scenario: "c20/s112-vp1-revealed-unstake", MaxDepth: 5, Deadline: 40 * time.Second}
			if ev.Tier() == "thorough" {
				cfg = bfs.Config{Scenario: "c20/s112-vp1-unstake", MaxDepth: 64, Deadline: 5 * time.Minute}
			}
			st := bfs.Explore(cfg, filtered)
			bfs.Report(run, "conflict-vote", cfg, st)
			exh = exh && st.Exhaustive
		}
		if property == "C37" && ev.Tier() == "thorough" {
			// block processing under staking-module histories (delegate / undelegate / redelegate / cancel-unbonding on
			// two validators, slash, dualstaking txs): the C06 alphabet, only its chain-halt findings are kept here
			cfg := bfs.Config{Scenario: "c06/deleg", MaxDepth: 6, Deadline: 7 * time.Minute}
			st := bfs.Explore(cfg, filtered)
			bfs.Report(run, "staking-deleg", cfg, st)
			exh = exh && st.Exhaustive
		}
		for _, v := range filtered.Violations() {
			if v.Property == property {
				run.Violate(v)
			}
		}
		run.Set("exhaustive", exh)
		run.Set("bound", fmt.Sprintf("all histories up to depth %d over 25 ops (buy/advance-buy/auto-renew/12-month subscriptions, IPRPC funding 1-2 months, relay payments on two specs (also to a third provider that is staked only in the young fixture), delegate (also a dust delegation of 1)/unbond/claim, unstake, plan new version/delete, validator slash of half its stake with jailing, unjail, +1 block, next epoch, past memory, +1 day, +31 days) from a fresh fixture, an aged one (a month with payouts, delegation, IPRPC funds, an upgrade) a late one (subscriptions whose month expires within the last 24 h before a pools refill) and a young one (a provider staked ten minutes before a served subscription's month expires), horizon 100 days", depth))
		run.Assume("mock bank/account keeper of testutil/keeper (MintCoins/BurnCoins are visible in its supply); atomic txs emulated as in baseapp; begin/end blockers in app.go order; distribution/slashing/evidence begin-blockers of cosmos are not run (a slash is injected at their position)")
	}
}

func init() {
	bfs.Register("econ/fresh", func() bfs.Scenario { return build("fresh") })
	bfs.Register("econ/aged", func() bfs.Scenario { return build("aged") })
	bfs.Register("econ/late", func() bfs.Scenario { return build("late") })
	bfs.Register("econ/young", func() bfs.Scenario { return build("young") })
	reg.Register(reg.Check{Property: "C09", Level: "model_checking", Run: runCheck("C09")})
	reg.Register(reg.Check{Property: "C10", Level: "model_checking", Run: runCheck("C10")})
	reg.Register(reg.Check{Property: "C37", Level: "model_checking", Run: runCheck("C37")})
}
