// Package c35: weighted provider selection is fair and well-formed.
//
// The real WeightedSelector and the real ProviderOptimizer.ChooseProviderWithStats are driven over a finite grid of
// candidate sets / QoS values / stakes / ignored subsets / strategies / adaptive bounds. The selector's private random
// source is replaced (verif_export.go hook) by an ENUMERATED source: Float64 answers k/K for every k in 0..K-1, Intn
// every index. "Proportional within statistical tolerance" thereby becomes an exact counting statement:
// |#{k : candidate i selected} - K*w_i/sum(w)| <= 2.
//
// Parts
//
//	A  selector: weight range + monotonicity along the four improvement axes (CalculateProviderScores)
//	B  selector: membership / non-empty / exact proportional counting (CalculateProviderScores + SelectProviderWithStats)
//	C  optimizer: the same through ChooseProviderWithStats with QoS data injected into the real ristretto store
//	   (exact num/denom score stores, fixed timestamps -> no decay, no wall-clock dependence)
//	D  optimizer: public write API (AppendRelayData/AppendRelayFailure/AppendProbeRelayData) histories with an injected
//	   clock; only the time-insensitive clauses (membership, non-empty, weight range) are decided there.
package c35

import (
	"context"
	"fmt"
	"runtime"
	"sort"
	"strconv"
	"strings"
	"sync"
	"sync/atomic"
	"time"

	sdk "github.com/cosmos/cosmos-sdk/types"
	po "github.com/lavanet/lava/v5/protocol/provideroptimizer"
	"github.com/lavanet/lava/v5/utils"
	"github.com/lavanet/lava/v5/utils/score"
	pairingtypes "github.com/lavanet/lava/v5/x/pairing/types"

	"verifmc/engine/ev"
	"verifmc/engine/reg"
)

// ---------------------------------------------------------------- enumerated random source

type enumRng struct {
	f          float64
	idx        int
	floatCalls int64
	intnCalls  int64
}

func (e *enumRng) Float64() float64 { e.floatCalls++; return e.f }
func (e *enumRng) Intn(n int) int   { e.intnCalls++; return e.idx % n }

// ---------------------------------------------------------------- grids

var (
	// quick grids; setThoroughGrids() refines them
	availGrid  = []string{"0", "0.5", "0.8", "0.85", "0.99", "1"}    // ascending = improving
	latGrid    = []string{"0", "0.01", "0.1", "1", "2", "30", "100"} // ascending = worsening
	syncGrid   = []string{"0", "0.5", "1", "100", "1200", "5000"}    // ascending = worsening
	stakeGrid  = []int64{0, 1, 10, 100}                              // ascending = improving
	otherStake = []int64{0, 10}
	addrs      = []string{"lava@p0", "lava@p1", "lava@p2", "lava@p3"}
)

func setThoroughGrids() {
	availGrid = []string{"0", "0.5", "0.79", "0.8", "0.85", "0.9", "0.99", "1"}
	latGrid = []string{"0", "0.01", "0.05", "0.1", "1", "2", "10", "30", "100"}
	syncGrid = []string{"0", "0.1", "0.5", "1", "30", "100", "1200", "5000"}
	otherStake = []int64{0, 1, 10}
}

func f64(s string) float64 { v, _ := strconv.ParseFloat(s, 64); return v }

type profile struct {
	name       string
	a, l, s    string
	stake      int64
	hasData    bool
	aF, lF, sF float64
	report     *pairingtypes.QualityOfServiceReport
}

func mkProfile(name, a, l, s string, stake int64, has bool) profile {
	p := profile{name: name, a: a, l: l, s: s, stake: stake, hasData: has}
	if has {
		p.aF, p.lF, p.sF = f64(a), f64(l), f64(s)
		p.report = mkReport(a, l, s)
	}
	return p
}

func mkReport(a, l, s string) *pairingtypes.QualityOfServiceReport {
	return &pairingtypes.QualityOfServiceReport{
		Availability: sdk.MustNewDecFromStr(a),
		Latency:      sdk.MustNewDecFromStr(l),
		Sync:         sdk.MustNewDecFromStr(s),
	}
}

// candidate profiles for the membership / proportionality parts
var profiles = []profile{
	mkProfile("best", "1", "0.01", "0.1", 10, true),
	mkProfile("good", "0.99", "0.1", "1", 1, true),
	mkProfile("mid", "0.9", "1", "100", 1, true),
	mkProfile("poor", "0.5", "10", "1200", 0, true),
	mkProfile("zero", "0", "30", "1200", 0, true),
	mkProfile("nodata", "", "", "", 1, false),
}

type selCfg struct {
	strat    po.Strategy
	min      float64
	weights  [4]float64
	adaptive int // 0 off, 1 valid bounds, 2 invalid bounds (p90<=p10 -> fixed-max fallback)
}

func (c selCfg) String() string {
	return fmt.Sprintf("strategy=%s min=%g weights=%v adaptive=%d", c.strat.String(), c.min, c.weights, c.adaptive)
}

func (c selCfg) build() *po.WeightedSelector {
	cfg := po.WeightedSelectorConfig{
		AvailabilityWeight: c.weights[0], LatencyWeight: c.weights[1], SyncWeight: c.weights[2], StakeWeight: c.weights[3],
		MinSelectionChance: c.min, Strategy: c.strat,
	}
	switch c.adaptive {
	case 1:
		cfg.UseAdaptiveLatencyMax, cfg.UseAdaptiveSyncMax = true, true
		cfg.AdaptiveLatencyGetter = func() (float64, float64) { return 0.05, 2 }
		cfg.AdaptiveSyncGetter = func() (float64, float64) { return 0.5, 100 }
	case 2:
		cfg.UseAdaptiveLatencyMax, cfg.UseAdaptiveSyncMax = true, true
		cfg.AdaptiveLatencyGetter = func() (float64, float64) { return 1, 1 }
		cfg.AdaptiveSyncGetter = func() (float64, float64) { return 1, 1 }
	}
	return po.NewWeightedSelector(cfg)
}

var allStrategies = []po.Strategy{po.StrategyBalanced, po.StrategyLatency, po.StrategySyncFreshness, po.StrategyCost,
	po.StrategyPrivacy, po.StrategyAccuracy, po.StrategyDistributed}

// strategies with pairwise different score adjustments (cost/privacy == balanced, distributed == accuracy in the code's switch)
var fourStrategies = []po.Strategy{po.StrategyBalanced, po.StrategyLatency, po.StrategySyncFreshness, po.StrategyAccuracy}

var weightSets = [][4]float64{{0.3, 0.3, 0.2, 0.2}, {1, 1, 1, 1}, {0, 0, 0, 1}}

// ---------------------------------------------------------------- shared state of one run

const eps = 1e-12

type state struct {
	run      *ev.Run
	deadline time.Time
	timedOut int32

	evals       int64 // select / choose calls with an enumerated random answer
	scoreCalls  int64 // CalculateProviderScores / weight observations
	propChecks  int64 // (config, candidate) counting checks performed
	monoPairs   int64 // adjacent grid pairs compared
	monoStrict  int64 // ... where the weight strictly improved
	uniformPath int64 // configs that went through the Intn fallback
	emptyOK     int64 // configs with no eligible candidate -> empty answer accepted
	histories   int64

	mu      sync.Mutex
	vectors map[string]struct{} // distinct (level, weight vector) with >= 2 different weights that were counted
}

func (st *state) expired() bool {
	if time.Now().After(st.deadline) {
		atomic.StoreInt32(&st.timedOut, 1)
		return true
	}
	return false
}

func (st *state) noteVector(level string, w []float64) {
	distinct := false
	for i := 1; i < len(w); i++ {
		if w[i] != w[0] {
			distinct = true
		}
	}
	if !distinct {
		return
	}
	var sb strings.Builder
	sb.WriteString(level)
	for _, x := range w {
		sb.WriteString(strconv.FormatFloat(x, 'g', -1, 64))
		sb.WriteByte(',')
	}
	st.mu.Lock()
	st.vectors[sb.String()] = struct{}{}
	st.mu.Unlock()
}

// spread: all weights pairwise different (used to pick illustrative samples only)
func spread(w []float64) bool {
	for i := range w {
		for j := i + 1; j < len(w); j++ {
			if w[i] == w[j] {
				return false
			}
		}
	}
	return true
}

func (st *state) viol(key, what string, replay interface{}) {
	st.run.Violate(ev.Violation{Property: "C35", Key: key, What: what, Replay: replay})
}

func parallel(n int, f func(i int)) {
	var wg sync.WaitGroup
	next := int64(-1)
	workers := runtime.NumCPU()
	if workers > n {
		workers = n
	}
	for w := 0; w < workers; w++ {
		wg.Add(1)
		go func() {
			defer wg.Done()
			for {
				i := int(atomic.AddInt64(&next, 1))
				if i >= n {
					return
				}
				f(i)
			}
		}()
	}
	wg.Wait()
}

// ---------------------------------------------------------------- oracle pieces (from the property text)

type candidate struct {
	addr    string
	ignored bool
	hasData bool
}

// checkSelection: selected must be in candidates\ignored; must not be empty when a non-ignored candidate has data.
func (st *state) checkSelection(level string, selected string, cands []candidate, replay func() interface{}) bool {
	eligible := false
	member := false
	for _, c := range cands {
		if !c.ignored && c.hasData {
			eligible = true
		}
		if !c.ignored && c.addr == selected {
			member = true
		}
	}
	if selected == "" {
		if eligible {
			st.viol("empty-selection-with-data/"+level, "no provider selected although a non-ignored candidate has QoS data", replay())
			return false
		}
		return true
	}
	if !member {
		st.viol("selected-outside-candidates-minus-ignored/"+level, fmt.Sprintf("selected %q is not in candidates minus ignored", selected), replay())
		return false
	}
	return true
}

// checkCounts: |count_i - K*w_i/sum| <= 2 for every scored candidate.
func (st *state) checkCounts(level string, K int, addrsScored []string, w []float64, counts map[string]int, replay func() interface{}) {
	sum := 0.0
	for _, x := range w {
		sum += x
	}
	if !(sum > 0) {
		return
	}
	total := 0
	for i, a := range addrsScored {
		exp := float64(K) * w[i] / sum
		got := float64(counts[a])
		total += counts[a]
		atomic.AddInt64(&st.propChecks, 1)
		if got < exp-2-1e-6 || got > exp+2+1e-6 {
			st.viol("proportion-off/"+level, fmt.Sprintf("candidate %s selected by %d of the %d equally spaced random answers, weight share predicts %.3f (tolerance 2)", a, counts[a], K, exp),
				map[string]interface{}{"case": replay(), "weights": w, "scored": addrsScored, "counts": counts, "K": K})
			return
		}
	}
	if total != K {
		// some draw selected something outside the scored list; reported by checkSelection unless it is a no-data candidate
		st.viol("proportion-off/"+level, fmt.Sprintf("%d of %d draws selected a provider that has no weight", K-total, K),
			map[string]interface{}{"case": replay(), "weights": w, "scored": addrsScored, "counts": counts, "K": K})
	}
	st.noteVector(level, w)
}

func (st *state) checkRange(level string, w, min float64, replay func() interface{}) {
	if !(w >= min-eps && w <= 1+eps) { // also catches NaN
		st.viol("weight-out-of-range/"+level, fmt.Sprintf("weight %v outside [minSelectionChance=%v, 1]", w, min), replay())
	}
}

// mono: "better" must not have a smaller weight than "worse".
func (st *state) mono(level, axis string, wWorse, wBetter float64, zeroLag bool, replay func() interface{}) {
	atomic.AddInt64(&st.monoPairs, 1)
	if wBetter > wWorse {
		atomic.AddInt64(&st.monoStrict, 1)
	}
	if wBetter < wWorse-eps {
		key := "mono-" + axis + "/" + level
		if zeroLag {
			key += "/zero-lag"
		}
		st.viol(key, fmt.Sprintf("weight decreases from %v to %v when %s improves (all other inputs fixed)", wWorse, wBetter, axis), replay())
	}
}

// ---------------------------------------------------------------- part A: selector weights

func weightOf(scores []po.ProviderScore, addr string) (float64, bool) {
	for _, s := range scores {
		if s.Address == addr {
			return s.SelectionWeight, true
		}
	}
	return 0, false
}

// gridWeights evaluates get(a,l,s,stakeIdx,otherIdx) on the whole grid and checks range + the four axes.
func (st *state) gridCheck(level string, min float64, syncZeroSpecial bool, descr string,
	get func(ai, li, si, ki, oi int) (float64, bool)) {
	na, nl, ns, nk, no := len(availGrid), len(latGrid), len(syncGrid), len(stakeGrid), len(otherStake)
	W := make([]float64, na*nl*ns*nk*no)
	ix := func(ai, li, si, ki, oi int) int { return (((ai*nl+li)*ns+si)*nk+ki)*no + oi }
	rep := func(ai, li, si, ki, oi int, axis string) func() interface{} {
		return func() interface{} {
			return map[string]interface{}{"config": descr, "availability": availGrid[ai], "latency": latGrid[li], "sync": syncGrid[si],
				"stake": stakeGrid[ki], "other_stake": otherStake[oi], "axis": axis,
				"note": "the listed point is the WORSE one on the named axis; the better one is the next grid value in the improving direction"}
		}
	}
	for ai := 0; ai < na; ai++ {
		if st.expired() {
			return
		}
		for li := 0; li < nl; li++ {
			for si := 0; si < ns; si++ {
				for ki := 0; ki < nk; ki++ {
					for oi := 0; oi < no; oi++ {
						w, ok := get(ai, li, si, ki, oi)
						atomic.AddInt64(&st.scoreCalls, 1)
						if !ok {
							st.viol("no-weight-for-candidate-with-data/"+level, "a non-ignored candidate with QoS data got no weight", rep(ai, li, si, ki, oi, "")())
							return
						}
						W[ix(ai, li, si, ki, oi)] = w
						st.checkRange(level, w, min, rep(ai, li, si, ki, oi, "range"))
					}
				}
			}
		}
	}
	for ai := 0; ai < na; ai++ {
		for li := 0; li < nl; li++ {
			for si := 0; si < ns; si++ {
				for ki := 0; ki < nk; ki++ {
					for oi := 0; oi < no; oi++ {
						w := W[ix(ai, li, si, ki, oi)]
						if ai+1 < na { // availability up
							st.mono(level, "availability", w, W[ix(ai+1, li, si, ki, oi)], false, rep(ai, li, si, ki, oi, "availability"))
						}
						if li > 0 { // latency down
							st.mono(level, "latency", w, W[ix(ai, li-1, si, ki, oi)], false, rep(ai, li, si, ki, oi, "latency"))
						}
						if si > 0 { // sync lag down
							zero := syncZeroSpecial && f64(syncGrid[si-1]) == 0
							st.mono(level, "sync", w, W[ix(ai, li, si-1, ki, oi)], zero, rep(ai, li, si, ki, oi, "sync"))
						}
						if ki+1 < nk { // stake up
							st.mono(level, "stake", w, W[ix(ai, li, si, ki+1, oi)], false, rep(ai, li, si, ki, oi, "stake"))
						}
					}
				}
			}
		}
	}
}

func (st *state) partA(cfgs []selCfg) {
	// pre-built reports for the grid
	reports := map[[3]int]*pairingtypes.QualityOfServiceReport{}
	for ai, a := range availGrid {
		for li, l := range latGrid {
			for si, s := range syncGrid {
				reports[[3]int{ai, li, si}] = mkReport(a, l, s)
			}
		}
	}
	other := mkReport("0.9", "1", "100")
	parallel(len(cfgs), func(i int) {
		c := cfgs[i]
		ws := c.build()
		ws.VerifSetRandomizer(&enumRng{})
		two := addrs[:2]
		st.gridCheck("selector", c.min, false, c.String(), func(ai, li, si, ki, oi int) (float64, bool) {
			getter := func(a string) (*pairingtypes.QualityOfServiceReport, time.Time, bool) {
				if a == addrs[0] {
					return reports[[3]int{ai, li, si}], time.Time{}, true
				}
				return other, time.Time{}, true
			}
			stake := func(a string) int64 {
				if a == addrs[0] {
					return stakeGrid[ki]
				}
				return otherStake[oi]
			}
			scores, _, _ := ws.CalculateProviderScores(two, nil, getter, stake)
			return weightOf(scores, addrs[0])
		})
	})
}

// ---------------------------------------------------------------- part B: selector membership + proportional counting

type assignment struct {
	n    int
	prof []int
}

var (
	allProfiles  = []int{0, 1, 2, 3, 4, 5}
	fourProfiles = []int{0, 2, 4, 5} // best, mid, zero, nodata
)

// assignments: every list of minN..maxN candidates with a profile from profs each.
func assignments(minN, maxN int, profs []int) []assignment {
	var out []assignment
	for n := minN; n <= maxN; n++ {
		tot := 1
		for i := 0; i < n; i++ {
			tot *= len(profs)
		}
		for x := 0; x < tot; x++ {
			a := assignment{n: n, prof: make([]int, n)}
			y := x
			for i := 0; i < n; i++ {
				a.prof[i] = profs[y%len(profs)]
				y /= len(profs)
			}
			out = append(out, a)
		}
	}
	return out
}

func describe(a assignment, mask int) map[string]interface{} {
	var c []string
	var ign []string
	for i := 0; i < a.n; i++ {
		c = append(c, addrs[i]+"="+profiles[a.prof[i]].name)
		if mask&(1<<i) != 0 {
			ign = append(ign, addrs[i])
		}
	}
	return map[string]interface{}{"candidates": c, "ignored": ign}
}

func (st *state) partB(cfgs []selCfg, as []assignment, kOf func(n int) int) {
	type item struct {
		c selCfg
		a assignment
	}
	var items []item
	for _, c := range cfgs {
		for _, a := range as {
			items = append(items, item{c, a})
		}
	}
	// longest first for balance
	sort.SliceStable(items, func(i, j int) bool { return items[i].a.n > items[j].a.n })
	sampled := int32(0)
	parallel(len(items), func(i int) {
		if st.expired() {
			return
		}
		it := items[i]
		K := kOf(it.a.n)
		ws := it.c.build()
		rng := &enumRng{}
		ws.VerifSetRandomizer(rng)
		all := addrs[:it.a.n]
		getter := func(a string) (*pairingtypes.QualityOfServiceReport, time.Time, bool) {
			for j := 0; j < it.a.n; j++ {
				if addrs[j] == a {
					p := profiles[it.a.prof[j]]
					return p.report, time.Time{}, p.hasData
				}
			}
			return nil, time.Time{}, false
		}
		stake := func(a string) int64 {
			for j := 0; j < it.a.n; j++ {
				if addrs[j] == a {
					return profiles[it.a.prof[j]].stake
				}
			}
			return 0
		}
		ctx := context.Background()
		for mask := 0; mask < 1<<it.a.n; mask++ {
			ignored := map[string]struct{}{}
			cands := make([]candidate, it.a.n)
			for j := 0; j < it.a.n; j++ {
				cands[j] = candidate{addr: addrs[j], ignored: mask&(1<<j) != 0, hasData: profiles[it.a.prof[j]].hasData}
				if cands[j].ignored {
					ignored[addrs[j]] = struct{}{}
				}
			}
			replay := func() interface{} {
				d := describe(it.a, mask)
				d["config"] = it.c.String()
				return d
			}
			scores, _, details := ws.CalculateProviderScores(all, ignored, getter, stake)
			atomic.AddInt64(&st.scoreCalls, 1)
			w := make([]float64, len(scores))
			sa := make([]string, len(scores))
			sum := 0.0
			for j, s := range scores {
				w[j], sa[j] = s.SelectionWeight, s.Address
				sum += s.SelectionWeight
				st.checkRange("selector", s.SelectionWeight, it.c.min, replay)
			}
			// every eligible candidate must carry a weight (otherwise "proportional to its weight" is void for it)
			for _, c := range cands {
				if !c.ignored && c.hasData {
					if _, ok := weightOf(scores, c.addr); !ok {
						st.viol("no-weight-for-candidate-with-data/selector", "a non-ignored candidate with QoS data got no weight", replay())
					}
				}
			}
			if len(scores) == 0 {
				sel, _ := ws.SelectProviderWithStats(ctx, scores, details)
				atomic.AddInt64(&st.evals, 1)
				if st.checkSelection("selector", sel, cands, replay) {
					atomic.AddInt64(&st.emptyOK, 1)
				}
				continue
			}
			if !(sum > 0) && len(scores) > 1 {
				// uniform fallback: enumerate every Intn answer
				before := rng.intnCalls
				for idx := 0; idx < len(scores); idx++ {
					rng.idx, rng.f = idx, 0
					sel, _ := ws.SelectProviderWithStats(ctx, scores, details)
					atomic.AddInt64(&st.evals, 1)
					if !st.checkSelection("selector", sel, cands, replay) {
						break
					}
				}
				if rng.intnCalls > before {
					atomic.AddInt64(&st.uniformPath, 1)
				}
				continue
			}
			counts := map[string]int{}
			ok := true
			for k := 0; k < K; k++ {
				rng.f = float64(k) / float64(K)
				sel, _ := ws.SelectProviderWithStats(ctx, scores, details)
				if !st.checkSelection("selector", sel, cands, replay) {
					ok = false
					break
				}
				counts[sel]++
			}
			atomic.AddInt64(&st.evals, int64(K))
			if ok {
				st.checkCounts("selector", K, sa, w, counts, replay)
				if len(scores) >= 3 && spread(w) && atomic.AddInt32(&sampled, 1) <= 2 {
					d := describe(it.a, mask)
					d["config"], d["weights"], d["counts"], d["K"], d["level"] = it.c.String(), w, counts, K, "selector"
					st.run.Sample(d)
				}
			}
		}
	})
}

// ---------------------------------------------------------------- part C: optimizer with injected exact QoS data

var t0 = time.Unix(1_700_000_000, 0)

func mkData(a, l, s float64) po.ProviderData {
	av, e1 := score.NewCustomScoreStore(score.AvailabilityScoreType, a, 1, t0)
	lt, e2 := score.NewCustomScoreStore(score.LatencyScoreType, l, 1, t0)
	sy, e3 := score.NewCustomScoreStore(score.SyncScoreType, s, 1, t0)
	if e1 != nil || e2 != nil || e3 != nil {
		panic(fmt.Sprint("c35: cannot build score stores: ", e1, e2, e3))
	}
	return po.ProviderData{Availability: av, Latency: lt, Sync: sy}
}

type optCfg struct {
	strat    po.Strategy
	adaptive bool // ConfigureWeightedSelector (production wiring: adaptive P10-P90 getters of the optimizer)
}

func (c optCfg) String() string {
	return fmt.Sprintf("optimizer strategy=%s configured=%v", c.strat.String(), c.adaptive)
}

func (c optCfg) build(rng *enumRng) *po.ProviderOptimizer {
	o := po.NewProviderOptimizer(c.strat, 10*time.Second, 1, nil, "LAV1")
	if c.adaptive {
		o.ConfigureWeightedSelector(po.DefaultWeightedSelectorConfig())
	}
	o.VerifSetRandomizer(rng)
	return o
}

func statsWeights(stats *po.SelectionStats) ([]string, []float64) {
	if stats == nil {
		return nil, nil
	}
	a := make([]string, len(stats.ProviderScores))
	w := make([]float64, len(stats.ProviderScores))
	for i, d := range stats.ProviderScores {
		a[i], w[i] = d.Address, d.Composite
	}
	return a, w
}

func (st *state) partC(cfgs []optCfg, c1 func(optCfg) bool, as []assignment, K int) {
	sampled := int32(0)
	parallel(len(cfgs), func(i int) {
		c := cfgs[i]
		rng := &enumRng{}
		o := c.build(rng)
		min := o.GetWeightedSelectorConfig().MinSelectionChance
		ctx := context.Background()

		// C2: weight range + monotonicity over the full QoS/stake grid, focus provider p0, background provider p1
		o.ResetState()
		o.VerifWait()
		o.VerifSetProviderData(addrs[1], mkData(0.9, 1, 100))
		o.VerifWait()
		two := addrs[:2]
		rng.f = 0
		st.gridCheck("optimizer", min, true, c.String(), func(ai, li, si, ki, oi int) (float64, bool) {
			o.VerifSetProviderData(addrs[0], mkData(f64(availGrid[ai]), f64(latGrid[li]), f64(syncGrid[si])))
			o.VerifWait()
			o.UpdateWeights(map[string]int64{addrs[0]: stakeGrid[ki], addrs[1]: otherStake[oi]}, 1)
			_, stats := o.ChooseProviderWithStats(ctx, two, nil, 10, -2)
			sa, w := statsWeights(stats)
			for j := range sa {
				if sa[j] == addrs[0] {
					return w[j], true
				}
			}
			return 0, false
		})

		// C1: membership / non-empty / counting
		for _, a := range as {
			if !c1(c) {
				break
			}
			if st.expired() {
				return
			}
			o.ResetState()
			o.VerifWait()
			stakes := map[string]int64{}
			for j := 0; j < a.n; j++ {
				p := profiles[a.prof[j]]
				stakes[addrs[j]] = p.stake
				if p.hasData {
					o.VerifSetProviderData(addrs[j], mkData(p.aF, p.lF, p.sF))
					o.VerifWait()
				}
			}
			o.UpdateWeights(stakes, 1)
			all := addrs[:a.n]
			for mask := 0; mask < 1<<a.n; mask++ {
				ignored := map[string]struct{}{}
				cands := make([]candidate, a.n)
				for j := 0; j < a.n; j++ {
					// at optimizer level a provider without stored data is scored with the default report, so
					// "has data" is only used for the non-empty clause (weaker reading)
					cands[j] = candidate{addr: addrs[j], ignored: mask&(1<<j) != 0, hasData: profiles[a.prof[j]].hasData}
					if cands[j].ignored {
						ignored[addrs[j]] = struct{}{}
					}
				}
				replay := func() interface{} {
					d := describe(a, mask)
					d["config"] = c.String()
					return d
				}
				// the deterministic "best provider" entry point (sticky sessions), with the ignored set as it is and with
				// two addresses added that are not candidates (the session manager passes ignored providers collected over
				// the whole pairing while the candidate list is filtered): same well-formedness as for ChooseProvider
				for _, foreign := range []bool{false, true} {
					ign := map[string]struct{}{}
					for k := range ignored {
						ign[k] = struct{}{}
					}
					if foreign {
						ign["lava@not-a-candidate-1"] = struct{}{}
						ign["lava@not-a-candidate-2"] = struct{}{}
					}
					res := o.ChooseBestProvider(ctx, all, ign, 10, -2)
					if len(res) > 1 {
						st.viol("more-than-one-selected/best-provider", fmt.Sprintf("ChooseBestProvider returned %v", res), replay())
					}
					sel := ""
					if len(res) == 1 {
						sel = res[0]
					}
					lvl := "best-provider"
					if foreign {
						lvl = "best-provider+foreign-ignored"
					}
					st.checkSelection(lvl, sel, cands, replay)
				}
				counts := map[string]int{}
				var sa []string
				var w []float64
				ok := true
				uniform := false
				for k := 0; k < K; k++ {
					rng.f, rng.idx = float64(k)/float64(K), k
					before := rng.intnCalls
					res, stats := o.ChooseProviderWithStats(ctx, all, ignored, 10, -2)
					if len(res) > 1 {
						st.viol("more-than-one-selected/optimizer", fmt.Sprintf("ChooseProvider returned %v", res), replay())
						ok = false
						break
					}
					sel := ""
					if len(res) == 1 {
						sel = res[0]
					}
					if !st.checkSelection("optimizer", sel, cands, replay) {
						ok = false
						break
					}
					if rng.intnCalls > before {
						uniform = true
					}
					if sel == "" {
						atomic.AddInt64(&st.emptyOK, 1)
						atomic.AddInt64(&st.evals, 1)
						ok = false // nothing to count
						break
					}
					if k == 0 {
						sa, w = statsWeights(stats)
						for _, x := range w {
							st.checkRange("optimizer", x, min, replay)
						}
					}
					counts[sel]++
				}
				if ok && !uniform {
					atomic.AddInt64(&st.evals, int64(K))
					st.checkCounts("optimizer", K, sa, w, counts, replay)
					if len(w) >= 3 && spread(w) && atomic.AddInt32(&sampled, 1) <= 2 {
						d := describe(a, mask)
						d["config"], d["weights"], d["counts"], d["K"], d["level"] = c.String(), w, counts, K, "optimizer"
						st.run.Sample(d)
					}
				}
			}
		}
	})
}

// ---------------------------------------------------------------- part D: optimizer through its public write API

type wop struct {
	name string
	do   func(o *po.ProviderOptimizer, p string)
}

var wops = []wop{
	{"relay-ok-fast", func(o *po.ProviderOptimizer, p string) { o.AppendRelayData(p, 10*time.Millisecond, 10, 100) }},
	{"relay-ok-slow-behind", func(o *po.ProviderOptimizer, p string) { o.AppendRelayData(p, 5*time.Second, 10, 90) }},
	{"relay-fail", func(o *po.ProviderOptimizer, p string) { o.AppendRelayFailure(p) }},
	{"probe-ok", func(o *po.ProviderOptimizer, p string) { o.AppendProbeRelayData(p, 50*time.Millisecond, true) }},
	{"probe-fail", func(o *po.ProviderOptimizer, p string) { o.AppendProbeRelayData(p, 0, false) }},
}

func (st *state) partD(cfgs []optCfg, maxLen int) {
	// all histories over wops up to maxLen for p0; p1 gets one of {nothing, relay-fail, relay-ok-fast}; p2 is never written
	var hist [][]int
	var rec func(cur []int)
	rec = func(cur []int) {
		hist = append(hist, append([]int{}, cur...))
		if len(cur) == maxLen {
			return
		}
		for i := range wops {
			rec(append(cur, i))
		}
	}
	rec(nil)
	p1opts := []int{-1, 2, 0}
	fs := []float64{0, 0.25, 0.5, 0.75, 0.999999}
	base := time.Now().Add(time.Hour) // only needs to be later than the default stores' creation time - 24h
	parallel(len(cfgs), func(i int) {
		c := cfgs[i]
		rng := &enumRng{}
		o := c.build(rng)
		min := o.GetWeightedSelectorConfig().MinSelectionChance
		tick := 0
		o.NowFunc = func() time.Time { return base.Add(time.Duration(tick) * time.Second) }
		ctx := context.Background()
		all := addrs[:3]
		for _, h := range hist {
			for _, p1 := range p1opts {
				if st.expired() {
					return
				}
				o.ResetState()
				o.VerifWait()
				written := map[string]bool{}
				var names []string
				for _, op := range h {
					tick++
					wops[op].do(o, addrs[0])
					o.VerifWait()
					written[addrs[0]] = true
					names = append(names, wops[op].name)
				}
				if p1 >= 0 {
					tick++
					wops[p1].do(o, addrs[1])
					o.VerifWait()
					written[addrs[1]] = true
				}
				atomic.AddInt64(&st.histories, 1)
				for mask := 0; mask < 8; mask++ {
					ignored := map[string]struct{}{}
					cands := make([]candidate, 3)
					for j := 0; j < 3; j++ {
						cands[j] = candidate{addr: addrs[j], ignored: mask&(1<<j) != 0, hasData: written[addrs[j]]}
						if cands[j].ignored {
							ignored[addrs[j]] = struct{}{}
						}
					}
					replay := func() interface{} {
						p1n := "none"
						if p1 >= 0 {
							p1n = wops[p1].name
						}
						return map[string]interface{}{"config": c.String(), "p0_history": names, "p1_history": p1n, "ignored_mask": mask}
					}
					for _, f := range fs {
						rng.f = f
						res, stats := o.ChooseProviderWithStats(ctx, all, ignored, 10, -2)
						atomic.AddInt64(&st.evals, 1)
						sel := ""
						if len(res) >= 1 {
							sel = res[0]
						}
						if !st.checkSelection("optimizer-api", sel, cands, replay) {
							break
						}
						_, w := statsWeights(stats)
						for _, x := range w {
							st.checkRange("optimizer-api", x, min, replay)
						}
					}
				}
			}
		}
	})
}

// ---------------------------------------------------------------- registration

func init() {
	reg.Register(reg.Check{Property: "C35", Level: "exploration", Run: func(run *ev.Run) {
		utils.SetGlobalLoggingLevel("fatal")
		thorough := ev.Tier() == "thorough"
		st := &state{run: run, vectors: map[string]struct{}{}}
		budget := 55 * time.Second
		if thorough {
			budget = 14 * time.Minute
		}
		begin := time.Now()
		upTo := func(frac float64) { st.deadline = begin.Add(time.Duration(frac * float64(budget))) }

		// A: selector weights (range + monotone) -- configurations
		var cfgsA, cfgsB []selCfg
		adA, minA, wsA := []int{0, 1}, []float64{0, 0.01}, [][4]float64{weightSets[0], weightSets[2]}
		if thorough {
			setThoroughGrids()
			adA, minA, wsA = []int{0, 1, 2}, []float64{0, 0.01, 0.2}, weightSets
		}
		for _, s := range allStrategies {
			for _, ad := range adA {
				for _, m := range minA {
					for _, w := range wsA {
						cfgsA = append(cfgsA, selCfg{s, m, w, ad})
					}
				}
			}
		}
		// B: selector membership + counting
		KB, KC, lenD := 10000, 250, 2
		var asB, asC []assignment
		if thorough {
			KC, lenD = 500, 4
			for _, s := range fourStrategies {
				for _, ad := range []int{0, 1} {
					for _, m := range []float64{0, 0.01} {
						cfgsB = append(cfgsB, selCfg{s, m, weightSets[0], ad})
					}
				}
			}
			asB = assignments(1, 4, allProfiles)
			asC = assignments(1, 3, allProfiles)
		} else {
			cfgsB = []selCfg{{fourStrategies[0], 0.01, weightSets[0], 0}, {fourStrategies[1], 0, weightSets[0], 1},
				{fourStrategies[2], 0.01, weightSets[0], 1}, {fourStrategies[3], 0, weightSets[0], 0}}
			asB = append(assignments(1, 3, allProfiles), assignments(4, 4, fourProfiles)...)
			asC = assignments(1, 3, fourProfiles)
		}
		kOfB := func(n int) int {
			if n == 4 {
				if thorough {
					return KB / 5
				}
				return KB / 10
			}
			return KB
		}
		// C/D: optimizer
		var cfgsC []optCfg
		for _, s := range allStrategies {
			cfgsC = append(cfgsC, optCfg{s, false}, optCfg{s, true})
		}
		c1 := func(c optCfg) bool {
			if thorough {
				return true
			}
			for i, s := range fourStrategies {
				if s == c.strat {
					return c.adaptive == (i%2 == 0)
				}
			}
			return false
		}
		nC1 := 0
		for _, c := range cfgsC {
			if c1(c) {
				nC1++
			}
		}

		tS := time.Now()
		upTo(0.15)
		st.partA(cfgsA)
		tA := time.Now()
		upTo(0.55)
		st.partB(cfgsB, asB, kOfB)
		tB := time.Now()
		upTo(0.65)
		st.partD(cfgsC, lenD)
		tD := time.Now()
		upTo(1)
		st.partC(cfgsC, c1, asC, KC)
		tC := time.Now()
		run.Set("part_wall_s", map[string]float64{"A": tA.Sub(tS).Seconds(), "B": tB.Sub(tA).Seconds(), "D": tD.Sub(tB).Seconds(), "C": tC.Sub(tD).Seconds()})
		run.Set("cases_B", int64(len(cfgsB)*len(asB)))
		run.Set("cases_C", int64(nC1*len(asC)))

		run.Set("evaluations", st.evals+st.scoreCalls)
		run.Set("select_calls_with_enumerated_random_answer", st.evals)
		run.Set("weight_evaluations", st.scoreCalls)
		run.Set("proportion_checks", st.propChecks)
		run.Set("monotonic_pairs_compared", st.monoPairs)
		run.Set("monotonic_pairs_strictly_improving", st.monoStrict)
		run.Set("uniform_fallback_configs", st.uniformPath)
		run.Set("empty_answers_accepted", st.emptyOK)
		run.Set("api_histories", st.histories)
		run.Set("distinct_nontrivial", int64(len(st.vectors)))
		run.Set("rule", "cases = (selector/optimizer configuration, candidate list with a QoS/stake profile per candidate, ignored subset) enumerated exhaustively; "+
			"for each case every one of the K equally spaced Float64 answers k/K (and every Intn answer on the uniform fallback) is fed to the real selection code. "+
			"distinct_nontrivial = number of distinct (level, weight vector) pairs with at least two different weights for which all K draws were counted and compared with K*w_i/sum(w) +-2; "+
			"monotonic_pairs_strictly_improving counts adjacent grid pairs on which the weight really moved")
		exh := atomic.LoadInt32(&st.timedOut) == 0
		run.Set("exhaustive", exh)
		run.Set("bound", fmt.Sprintf("A: %d selector configs (7 strategies x adaptive %v x minSelectionChance %v x %d weight sets) x grid availability %v x latency %v x sync %v x stake %v x other stake %v; "+
			"B: %d selector configs x %d candidate lists (1..4 providers over the profiles best/good/mid/poor/zero/nodata; quick: 4-provider lists over best/mid/zero/nodata only) x all ignored subsets, K=%d (4-provider lists: K/10 quick, K/5 thorough); "+
			"C: %d optimizer configs (strategies x default/ConfigureWeightedSelector) x %d candidate lists (1..3 providers) x all ignored subsets, K=%d, plus the grid of A for one focus provider on all %d optimizer configs; "+
			"D: all write histories of length <= %d over %d public write ops x 3 second-provider histories x 8 ignored subsets x 5 random answers on %d optimizer configs",
			len(cfgsA), adA, minA, len(wsA), availGrid, latGrid, syncGrid, stakeGrid, otherStake, len(cfgsB), len(asB), KB, nC1, len(asC), KC, len(cfgsC), lenD, len(wops), len(cfgsC)))
		run.Assume("the selector's private rng field is replaced by an enumerated source through protocol/provideroptimizer/verif_export.go (setter only)")
		run.Assume("optimizer-level QoS values are injected as exact score stores (num/1, fixed timestamp) into the real ristretto store via a thin Set wrapper + Wait; the decaying average (time dependent) is only exercised in part D where only time-insensitive clauses are decided")
		run.Assume("'has QoS data' at optimizer level: providers never written are scored with the default report by the code; the non-empty clause is only demanded when a non-ignored candidate was written")
		run.Assume("monotonicity is compared with an absolute slack of 1e-12 on weights in [0,1]")
	}})
}
